#!/usr/bin/env python3
"""Driver of the YACLib model-checking machinery (see DESIGN.md).

  run.py build [targets...]          build (incrementally, from /repo's working tree) the given binaries
  run.py check <id> --tier quick|thorough
  run.py replay <file>
  run.py setup                       build everything once (MANIFEST.setup_cmd)

Python 3 standard library only.
"""
import argparse
import concurrent.futures
import glob
import json
import os
import re
import shlex
import subprocess
import sys
import time

VERIF = os.path.dirname(os.path.abspath(__file__))
REPO = os.environ.get('VERIF_REPO', '/repo')
BUILD = os.path.join(VERIF, 'build')
NPROC = os.cpu_count() or 8

# ---------------------------------------------------------------------------------------------------
# Build variants
# ---------------------------------------------------------------------------------------------------
COMMON_WARN = ['-w']

VARIANTS = {
    # explorer, semantic oracles + memory safety
    'mc-asan': dict(std='20', fault=2, coro=1, st=1, fst=1, asan=True, hb=False,
                    defs=['YACLIB_VERIF', 'YACLIB_LOG_DEBUG'], opt='-O1'),
    # explorer, happens-before monitor (tsan instrumentation, private runtime)
    'mc-hb': dict(std='20', fault=2, coro=1, st=1, fst=1, asan=False, hb=True,
                  defs=['YACLIB_VERIF'], opt='-O1'),
    # same, without symmetric transfer
    'mc-asan-nost': dict(std='20', fault=2, coro=1, st=0, fst=0, asan=True, hb=False,
                         defs=['YACLIB_VERIF', 'YACLIB_LOG_DEBUG'], opt='-O1'),
    'mc-hb-nost': dict(std='20', fault=2, coro=1, st=0, fst=0, asan=False, hb=True,
                       defs=['YACLIB_VERIF'], opt='-O1'),
    # sequential enumerators
    'seq17': dict(std='17', fault=0, coro=0, st=0, fst=0, asan=True, hb=False, defs=['NDEBUG'], opt='-O1'),
    'seq17-plain': dict(std='17', fault=0, coro=0, st=0, fst=0, asan=False, hb=False, defs=['NDEBUG'], opt='-O2'),
    'seq20': dict(std='20', fault=0, coro=1, st=1, fst=1, asan=True, hb=False, defs=['YACLIB_LOG_DEBUG'], opt='-O1'),
    'seq20-plain': dict(std='20', fault=0, coro=1, st=1, fst=1, asan=False, hb=False, defs=['NDEBUG'], opt='-O2'),
    # atomics differential, fault layers without hooks
    'at-fiber': dict(std='20', fault=2, coro=0, st=0, fst=0, asan=False, hb=False, defs=[], opt='-O1'),
    'at-thread': dict(std='20', fault=1, coro=0, st=0, fst=0, asan=False, hb=False, defs=[], opt='-O1'),
    # fiber layer with hooks compiled in but the plain fiber atomic (rng-level exploration, C17/C18)
    'fib-asan': dict(std='20', fault=2, coro=1, st=1, fst=1, asan=True, hb=False,
                     defs=['YACLIB_VERIF', 'YACLIB_LOG_DEBUG'], opt='-O1'),
}

# harness name -> (source, kind) ; kind 'mc' links the explorer engine, 'seq' is a standalone program
HARNESSES = {
    'handoff': dict(src='harness/handoff.cpp', kind='mc'),
}


def lib_sources(v):
    srcs = [os.path.join(REPO, 'src/log.cpp')]
    for d in ('algo', 'async', 'exe', 'lazy', 'runtime', 'util'):
        srcs += sorted(glob.glob(os.path.join(REPO, 'src', d, '*.cpp')))
    f = os.path.join(REPO, 'src/fault')
    srcs += [os.path.join(f, x) for x in ('util.cpp', 'config.cpp', 'inject.cpp', 'injector.cpp')]
    if v['fault'] != 0:
        srcs += [os.path.join(f, x) for x in ('random_device.cpp', 'atomic.cpp', 'condition_variable.cpp')]
    if v['fault'] == 2:
        srcs += sorted(glob.glob(os.path.join(f, 'fiber', '*.cpp')))
        srcs += sorted(glob.glob(os.path.join(f, 'fiber', 'context', '*.cpp')))
    return srcs


def is_fault_layer(path):
    return '/src/fault/' in path


def gen_config(vname, v):
    d = os.path.join(BUILD, vname, 'cfg', 'yaclib')
    os.makedirs(d, exist_ok=True)
    s = open(os.path.join(REPO, 'src/config.hpp.in')).read()
    vals = dict(YACLIB_ASAN=0, YACLIB_TSAN=0, YACLIB_MEMSAN=0, YACLIB_UBSAN=0, YACLIB_FAULT=v['fault'],
                YACLIB_COVERAGE=0, YACLIB_CORO_NEED=v['coro'], YACLIB_SYMMETRIC_TRANSFER=v['st'],
                YACLIB_FINAL_SUSPEND_TRANSFER=v['fst'], YACLIB_FUTEX=0)
    s = re.sub(r'\$\{(\w+)\}', lambda m: str(vals[m.group(1)]), s)
    if v['hb']:
        # g++ defines __SANITIZE_THREAD__ under -fsanitize=thread; the shipped (fence) path of
        # AtomicCounter::SubEqual is what must be analysed, not the tsan work-around
        s += '\n#undef YACLIB_TSAN\n'
    p = os.path.join(d, 'config.hpp')
    old = open(p).read() if os.path.exists(p) else None
    if old != s:
        open(p, 'w').write(s)


def flags(vname, v, instrument):
    fl = ['-std=c++' + v['std'], v['opt'], '-g1', '-fno-omit-frame-pointer', '-pthread'] + COMMON_WARN
    if v['coro'] and v['std'] == '20':
        fl.append('-fcoroutines')
    fl += ['-I' + os.path.join(REPO, 'include'), '-I' + os.path.join(BUILD, vname, 'cfg'), '-I' + os.path.join(REPO, 'src')]
    fl += ['-D' + d for d in v['defs']]
    if v['asan'] and instrument:
        fl += ['-fsanitize=address']
    if v['hb'] and instrument:
        fl += ['-fsanitize=thread']
    return fl


def ldflags(vname, v):
    fl = ['-pthread', '-no-pie']
    if v['asan']:
        fl += ['-fsanitize=address']
    return fl


def ninja_escape(s):
    return s.replace('$', '$$').replace(':', '$:').replace(' ', '$ ')


def write_ninja(targets):
    """targets: list of (harness, variant).  Returns list of binary paths."""
    os.makedirs(BUILD, exist_ok=True)
    lines = ['ninja_required_version = 1.3', 'cxx = g++', '',
             'rule cxx', '  command = $cxx $flags -MD -MF $out.d -c $in -o $out', '  depfile = $out.d', '  deps = gcc',
             '  description = CXX $out', '',
             'rule link', '  command = $cxx $in $ldflags -o $out', '  description = LINK $out', '']
    bins = []
    done_variants = set()
    for (hname, vname) in targets:
        v = VARIANTS[vname]
        h = HARNESSES[hname]
        vdir = os.path.join(BUILD, vname)
        if vname not in done_variants:
            done_variants.add(vname)
            gen_config(vname, v)
            objs = []
            for src in lib_sources(v):
                rel = os.path.relpath(src, REPO).replace('/', '_')
                obj = os.path.join(vdir, 'lib', rel + '.o')
                instrument = not (v['hb'] and is_fault_layer(src))
                lines += ['build %s: cxx %s' % (ninja_escape(obj), ninja_escape(src)),
                          '  flags = ' + ' '.join(flags(vname, v, instrument)), '']
                objs.append(obj)
            VARIANTS[vname]['_objs'] = objs
            # engine objects (never instrumented)
            eng = []
            for src, extra in (('engine/engine.cpp', ['-fno-access-control']),
                               ('engine/hbrt.cpp' if v['hb'] else 'engine/hb_stub.cpp', ['-fno-access-control'])):
                obj = os.path.join(vdir, 'engine', os.path.basename(src) + '.o')
                fl = flags(vname, v, False) + extra + ['-O2']
                lines += ['build %s: cxx %s' % (ninja_escape(obj), ninja_escape(os.path.join(VERIF, src))),
                          '  flags = ' + ' '.join(fl), '']
                eng.append(obj)
            VARIANTS[vname]['_eng'] = eng
        hobj = os.path.join(vdir, 'harness', hname + '.o')
        lines += ['build %s: cxx %s' % (ninja_escape(hobj), ninja_escape(os.path.join(VERIF, h['src']))),
                  '  flags = ' + ' '.join(flags(vname, v, True) + ['-I' + VERIF]), '']
        binp = os.path.join(vdir, 'bin', hname)
        inputs = [hobj] + (VARIANTS[vname]['_eng'] if h['kind'] == 'mc' else []) + VARIANTS[vname]['_objs']
        lines += ['build %s: link %s' % (ninja_escape(binp), ' '.join(ninja_escape(x) for x in inputs)),
                  '  ldflags = ' + ' '.join(ldflags(vname, v) + h.get('ld', [])), '']
        bins.append(binp)
    path = os.path.join(BUILD, 'build.ninja')
    text = '\n'.join(lines) + '\n'
    old = open(path).read() if os.path.exists(path) else None
    if old != text:
        open(path, 'w').write(text)
    return bins


def build(targets, quiet=True):
    bins = write_ninja(targets)
    cmd = ['ninja', '-C', BUILD, '-j', str(NPROC)] + bins
    r = subprocess.run(cmd, stdout=subprocess.PIPE, stderr=subprocess.STDOUT, text=True)
    if r.returncode != 0:
        sys.stdout.write(r.stdout[-6000:])
        raise SystemExit('BUILD-ERROR: ninja failed (machinery error, not a violation)')
    if not quiet:
        sys.stdout.write(r.stdout[-2000:])
    return bins


def main():
    ap = argparse.ArgumentParser()
    sub = ap.add_subparsers(dest='cmd')
    b = sub.add_parser('build')
    b.add_argument('targets', nargs='*')
    a = ap.parse_args()
    if a.cmd == 'build':
        tg = []
        for t in a.targets:
            h, v = t.split(':')
            tg.append((h, v))
        t0 = time.time()
        bins = build(tg, quiet=False)
        print('built', bins, 'in %.1fs' % (time.time() - t0))
    else:
        ap.print_help()


if __name__ == '__main__':
    main()
