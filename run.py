#!/usr/bin/env python3
"""Driver of the YACLib model-checking machinery (see DESIGN.md).

  run.py build [targets...]          build (incrementally, from /repo's working tree) the given binaries
  run.py check <id> --tier quick|thorough
  run.py replay <file>
  run.py setup                       build everything once (MANIFEST.setup_cmd)

Python 3 standard library only.
"""
import argparse
import concurrent.futures
import glob
import json
import os
import re
import shlex
import shutil
import subprocess
import sys
import time

VERIF = os.path.dirname(os.path.abspath(__file__))
REPO = os.environ.get('VERIF_REPO', '/repo')
BUILD = os.path.join(VERIF, 'build')
NPROC = os.cpu_count() or 8

# ---------------------------------------------------------------------------------------------------
# Build variants
# ---------------------------------------------------------------------------------------------------
COMMON_WARN = ['-w']

VARIANTS = {
    # explorer, semantic oracles + memory safety
    'mc-asan': dict(std='20', fault=2, coro=1, st=1, fst=1, asan=True, hb=False,
                    defs=['YACLIB_VERIF', 'YACLIB_LOG_DEBUG'], opt='-O1'),
    # explorer, happens-before monitor (tsan instrumentation, private runtime)
    'mc-hb': dict(std='20', fault=2, coro=1, st=1, fst=1, asan=False, hb=True,
                  defs=['YACLIB_VERIF'], opt='-O1'),
    # same, without symmetric transfer
    'mc-asan-nost': dict(std='20', fault=2, coro=1, st=0, fst=0, asan=True, hb=False,
                         defs=['YACLIB_VERIF', 'YACLIB_LOG_DEBUG'], opt='-O1'),
    'mc-hb-nost': dict(std='20', fault=2, coro=1, st=0, fst=0, asan=False, hb=True,
                       defs=['YACLIB_VERIF'], opt='-O1'),
    # sequential enumerators
    'seq17': dict(std='17', fault=0, coro=0, st=0, fst=0, asan=True, hb=False, defs=['NDEBUG'], opt='-O1'),
    'seq17-plain': dict(std='17', fault=0, coro=0, st=0, fst=0, asan=False, hb=False, defs=['NDEBUG'], opt='-O2'),
    'seq20': dict(std='20', fault=0, coro=1, st=1, fst=1, asan=True, hb=False, defs=['YACLIB_LOG_DEBUG'], opt='-O1'),
    'seq20-plain': dict(std='20', fault=0, coro=1, st=1, fst=1, asan=False, hb=False, defs=['NDEBUG'], opt='-O2'),
    # atomics differential, fault layers without hooks
    'at-fiber': dict(std='20', fault=2, coro=0, st=0, fst=0, asan=False, hb=False, defs=[], opt='-O1'),
    'at-thread': dict(std='20', fault=1, coro=0, st=0, fst=0, asan=False, hb=False, defs=[], opt='-O1'),
    # upstream's own unit tests compiled by hand (guard for "fix:" commits, not evidence)
    'up-fiber': dict(std='20', fault=2, coro=1, st=1, fst=1, asan=False, hb=False, defs=['YACLIB_LOG_DEBUG', 'YACLIB_CI_SLOWDOWN=1'], opt='-O1'),
    'up-off': dict(std='20', fault=0, coro=1, st=1, fst=1, asan=False, hb=False, defs=['YACLIB_LOG_DEBUG', 'YACLIB_CI_SLOWDOWN=1'], opt='-O1'),
    # fiber layer with hooks compiled in but the plain fiber atomic (rng-level exploration, C17/C18)
    'fib-asan': dict(std='20', fault=2, coro=1, st=1, fst=1, asan=True, hb=False,
                     defs=['YACLIB_VERIF', 'YACLIB_LOG_DEBUG'], opt='-O1'),
}

# harness name -> (source, kind) ; kind 'mc' links the explorer engine, 'seq' is a standalone program
HARNESSES = {
    'handoff': dict(src='harness/handoff.cpp', kind='mc'),
    'atomic_diff': dict(src='harness/atomic_diff.cpp', kind='seq'),
    'pipeline': dict(src='harness/pipeline.cpp', kind='seq', extra=['engine/seq_support.cpp']),
    'alloc': dict(src='harness/alloc.cpp', kind='seq', extra=['engine/seq_support.cpp']),
    'repro': dict(src='harness/repro.cpp', kind='seq'),
    'shared': dict(src='harness/shared.cpp', kind='mc'),
    'when_all': dict(src='harness/when_all.cpp', kind='mc'),
    'strand': dict(src='harness/strand.cpp', kind='mc'),
    'when_any': dict(src='harness/when_any.cpp', kind='mc'),
    'timed_wait': dict(src='harness/timed_wait.cpp', kind='mc'),
    'std_prims': dict(src='harness/std_prims.cpp', kind='mc'),
    'coro_await': dict(src='harness/coro_await.cpp', kind='mc'),
    'coro_mutex': dict(src='harness/coro_mutex.cpp', kind='mc'),
    'coro_shared_mutex': dict(src='harness/coro_shared_mutex.cpp', kind='mc'),
    'wait_group': dict(src='harness/wait_group.cpp', kind='mc'),
    'pool': dict(src='harness/pool.cpp', kind='mc'),
    'chain': dict(src='harness/chain.cpp', kind='mc'),
    'exec_seq': dict(src='harness/exec_seq.cpp', kind='seq', extra=['engine/seq_support.cpp']),
}


def lib_sources(v):
    srcs = [os.path.join(REPO, 'src/log.cpp')]
    for d in ('algo', 'async', 'exe', 'lazy', 'runtime', 'util'):
        srcs += sorted(glob.glob(os.path.join(REPO, 'src', d, '*.cpp')))
    f = os.path.join(REPO, 'src/fault')
    srcs += [os.path.join(f, x) for x in ('util.cpp', 'config.cpp', 'inject.cpp', 'injector.cpp')]
    if v['fault'] != 0:
        srcs += [os.path.join(f, x) for x in ('random_device.cpp', 'atomic.cpp', 'condition_variable.cpp')]
    if v['fault'] == 2:
        srcs += sorted(glob.glob(os.path.join(f, 'fiber', '*.cpp')))
        srcs += sorted(glob.glob(os.path.join(f, 'fiber', 'context', '*.cpp')))
    return srcs


def is_fault_layer(path):
    return '/src/fault/' in path


def gen_config(vname, v):
    d = os.path.join(BUILD, vname, 'cfg', 'yaclib')
    os.makedirs(d, exist_ok=True)
    s = open(os.path.join(REPO, 'src/config.hpp.in')).read()
    vals = dict(YACLIB_ASAN=0, YACLIB_TSAN=0, YACLIB_MEMSAN=0, YACLIB_UBSAN=0, YACLIB_FAULT=v['fault'],
                YACLIB_COVERAGE=0, YACLIB_CORO_NEED=v['coro'], YACLIB_SYMMETRIC_TRANSFER=v['st'],
                YACLIB_FINAL_SUSPEND_TRANSFER=v['fst'], YACLIB_FUTEX=0)
    s = re.sub(r'\$\{(\w+)\}', lambda m: str(vals[m.group(1)]), s)
    if v['hb']:
        # g++ defines __SANITIZE_THREAD__ under -fsanitize=thread; the shipped (fence) path of
        # AtomicCounter::SubEqual is what must be analysed, not the tsan work-around
        s += '\n#undef YACLIB_TSAN\n'
    p = os.path.join(d, 'config.hpp')
    old = open(p).read() if os.path.exists(p) else None
    if old != s:
        open(p, 'w').write(s)


def flags(vname, v, instrument):
    fl = ['-std=c++' + v['std'], v['opt'], '-g1', '-fno-omit-frame-pointer', '-pthread'] + COMMON_WARN
    if v['coro'] and v['std'] == '20':
        fl.append('-fcoroutines')
    fl += ['-I' + os.path.join(REPO, 'include'), '-I' + os.path.join(BUILD, vname, 'cfg'), '-I' + os.path.join(REPO, 'src')]
    fl += ['-D' + d for d in v['defs']]
    if v['asan'] and instrument:
        fl += ['-fsanitize=address']
    if v['hb'] and instrument:
        fl += ['-fsanitize=thread']
    return fl


def ldflags(vname, v):
    fl = ['-pthread', '-no-pie']
    if v['asan']:
        fl += ['-fsanitize=address']
    return fl


def ninja_escape(s):
    return s.replace('$', '$$').replace(':', '$:').replace(' ', '$ ')


def write_ninja(targets):
    """targets: list of (harness, variant).  Returns list of binary paths."""
    os.makedirs(BUILD, exist_ok=True)
    lines = ['ninja_required_version = 1.3', 'cxx = g++', '',
             'rule cxx', '  command = $cxx $flags -MD -MF $out.d -c $in -o $out', '  depfile = $out.d', '  deps = gcc',
             '  description = CXX $out', '',
             'rule link', '  command = $cxx $in $ldflags -o $out', '  description = LINK $out', '']
    bins = []
    done_variants = set()
    done_extra = set()
    for (hname, vname) in targets:
        v = VARIANTS[vname]
        h = HARNESSES[hname]
        vdir = os.path.join(BUILD, vname)
        if vname not in done_variants:
            done_variants.add(vname)
            gen_config(vname, v)
            objs = []
            for src in lib_sources(v):
                rel = os.path.relpath(src, REPO).replace('/', '_')
                obj = os.path.join(vdir, 'lib', rel + '.o')
                instrument = not (v['hb'] and is_fault_layer(src))
                lines += ['build %s: cxx %s' % (ninja_escape(obj), ninja_escape(src)),
                          '  flags = ' + ' '.join(flags(vname, v, instrument)), '']
                objs.append(obj)
            VARIANTS[vname]['_objs'] = objs
            # engine objects (never instrumented)
            eng = []
            for src, extra in (('engine/engine.cpp', ['-fno-access-control']),
                               ('engine/hbrt.cpp' if v['hb'] else 'engine/hb_stub.cpp', ['-fno-access-control'])):
                obj = os.path.join(vdir, 'engine', os.path.basename(src) + '.o')
                fl = flags(vname, v, False) + extra + ['-O2']
                lines += ['build %s: cxx %s' % (ninja_escape(obj), ninja_escape(os.path.join(VERIF, src))),
                          '  flags = ' + ' '.join(fl), '']
                eng.append(obj)
            VARIANTS[vname]['_eng'] = eng
        hobj = os.path.join(vdir, 'harness', hname + '.o')
        lines += ['build %s: cxx %s' % (ninja_escape(hobj), ninja_escape(os.path.join(VERIF, h['src']))),
                  '  flags = ' + ' '.join(flags(vname, v, True) + ['-I' + VERIF]), '']
        binp = os.path.join(vdir, 'bin', hname)
        extra_objs = []
        for src in h.get('extra', []):
            obj = os.path.join(vdir, 'extra', os.path.basename(src) + '.o')
            if obj not in done_extra:
                done_extra.add(obj)
                lines += ['build %s: cxx %s' % (ninja_escape(obj), ninja_escape(os.path.join(VERIF, src))),
                          '  flags = ' + ' '.join(flags(vname, v, False) + ['-I' + VERIF, '-O2']), '']
            extra_objs.append(obj)
        inputs = [hobj] + extra_objs + (VARIANTS[vname]['_eng'] if h['kind'] == 'mc' else []) + VARIANTS[vname]['_objs']
        lines += ['build %s: link %s' % (ninja_escape(binp), ' '.join(ninja_escape(x) for x in inputs)),
                  '  ldflags = ' + ' '.join(ldflags(vname, v) + h.get('ld', []) +
                                             (['-Wl,--wrap=__cxa_allocate_exception'] if h['kind'] == 'mc' else [])), '']
        bins.append(binp)
    path = os.path.join(BUILD, 'build.ninja')
    text = '\n'.join(lines) + '\n'
    old = open(path).read() if os.path.exists(path) else None
    if old != text:
        open(path, 'w').write(text)
    return bins


def build(targets, quiet=True):
    bins = write_ninja(targets)
    cmd = ['ninja', '-C', BUILD, '-j', str(NPROC)] + bins
    r = subprocess.run(cmd, stdout=subprocess.PIPE, stderr=subprocess.STDOUT, text=True)
    if r.returncode != 0:
        sys.stdout.write(r.stdout[-6000:])
        raise SystemExit('BUILD-ERROR: ninja failed (machinery error, not a violation)')
    if not quiet:
        sys.stdout.write(r.stdout[-2000:])
    return bins


# ---------------------------------------------------------------------------------------------------
# Checks
# ---------------------------------------------------------------------------------------------------
ASAN_OPTIONS = 'detect_leaks=0:exitcode=87:abort_on_error=0:detect_stack_use_after_return=0:allocator_may_return_null=1'

# Per property: list of runs.  A run = harness x variant with per-tier options:
#   P,S,T       bounds handed to the binary (a harness may override them per cell in CellBounds)
#   cells       optional regex the cell id must match
#   oracles     optional regex: only violations whose oracle id matches are attributed to this property
#   budget      share of the check's wall-clock budget
def mc(harness, variant='mc-asan', quick=None, thorough=None, oracles=None):
    return dict(kind='mc', harness=harness, variant=variant, quick=quick or {}, thorough=thorough or {}, oracles=oracles)


def seq(harness, variant, quick=None, thorough=None, oracles=None):
    return dict(kind='seq', harness=harness, variant=variant, quick=quick or {}, thorough=thorough or {}, oracles=oracles)


OWN = r'^(ledger:|alloc:|asan:|crash:)'
HB = r'^hb:'

CHECKS = {
    'C01': dict(
        title='Promise -> Future delivered exactly once, intact',
        level_text='all interleavings (no preemption bound) of one producer fiber and one consumer fiber at the '
                   'granularity of every atomic/mutex operation, for every consumer kind x producer kind x value/error '
                   'type, executed on the real code; oracles: exactly-once, equality with what was set, Ready implies '
                   'readable, tracked-object ledger, allocation balance, ASan, library assertions',
        budget=dict(quick=150, thorough=1200),
        runs=[mc('handoff', 'mc-asan', quick=dict(P=99), thorough=dict(P=99)),
              mc('handoff', 'mc-hb', quick=dict(P=99), thorough=dict(P=99))],
        assumptions=[
            'FIBER backend instantiation of the library (same sources, yaclib_std mapped to the cooperative fibers)',
            'schedules differ only at synchronisation operations (atomic/mutex/cv/thread); plain accesses are covered by the happens-before monitor of C04',
            'sequentially consistent executions only',
        ],
        technique='stateless model checking: exhaustive DFS over all schedules of the real code under a controlled fiber scheduler',
    ),
    'C02': dict(
        title='A pipeline computes what its steps say: routing, recovery, unwrapping',
        level_text='every pipeline program of length <= 2 over the full step alphabet (3 attach modes x 4 callback argument '
                   'classes x 9 return classes with their sub-variants (value / error / exception Result, ready / later inner Future, '
                   'SharedFuture, FutureOn via Run, Task built by MakeTask / Schedule / LazyContract) x returning or throwing x '
                   'executor) x 13 eager and 5 lazy sources x 2 value types x 5 finishes / 6 start methods (thorough: also length 3 '
                   'over a reduced alphabet and every rejection index of the refusing executor), built from real library calls and '
                   'compared with a reference interpreter: final Result, ordered list of invoked callbacks and the argument each saw',
        budget=dict(quick=200, thorough=1800),
        runs=[seq('pipeline', 'seq17', quick=dict(shards=16, args=['--mode', 'eager', '--prop', 'C02']),
                  thorough=dict(shards=16, args=['--mode', 'eager', '--prop', 'C02'])),
              seq('pipeline', 'seq17', quick=dict(shards=16, args=['--mode', 'lazy', '--prop', 'C02']),
                  thorough=dict(shards=16, args=['--mode', 'lazy', '--prop', 'C02'])),
              mc('handoff', 'mc-asan', quick=dict(P=99, cells='cons=(ThenInline|ThenInlineV|ThenE|ConnectThen)'),
                 thorough=dict(P=99)),
              mc('chain', 'mc-asan', quick=dict(P=3, S=1), thorough=dict(P=4, S=1))],
        assumptions=['the C++17 / FAULT=OFF instantiation the baseline ships (plus ASan); single-threaded: executors are '
                     'instrumented inline executors; "fulfilled concurrently with building" is covered by the explorer harnesses handoff '
                     '(one link) and chain (two-step pipelines built while the source, an inner future returned by a step and a pool worker '
                     'complete them: all interleavings for up to 3 fibers, 3-4 preemptions above)',
                     'pipeline length bound as stated; coroutine sources are covered in C13',
                     'the reference interpreter (harness/pipeline.cpp Reference(), DESIGN.md appendix C) is the specification'],
        technique='bounded exhaustive enumeration of operation sequences against a reference model (plus exhaustive schedule enumeration for the concurrent hand-off)',
    ),
    'C03': dict(
        title='Everything the library owns is released exactly once, on every path',
        level_text='aggregate of the ownership oracles (tracked-object ledger: no read after destroy / move, no double destroy, nothing '
                   'alive at quiescence; operator new/delete balance per execution; AddressSanitizer; crashes) over (a) every schedule '
                   'explored by the explorer harnesses handoff (incl. dropped Promise / dropped Future / Detach), shared (copies created and '
                   'destroyed concurrently), when_all, when_any, timed_wait, strand and pool with Stop/HardStop at any moment, coro_await '
                   '(stopped executors, frames with live locals), wait_group (consumed futures, two-owner TimedWaiter) at their quick / thorough '
                   'bounds, and (b) every pipeline program of the sequential enumerator (eager and lazy, length <= 2; thorough 3 reduced) x every '
                   'finish incl. dropped handles and never-started Tasks x throwing callbacks x every rejection index of the refusing executor',
        budget=dict(quick=600, thorough=3000),
        runs=[seq('pipeline', 'seq17', quick=dict(shards=16, args=['--mode', 'exec', '--prop', 'C03']),
                  thorough=dict(shards=16, args=['--mode', 'exec', '--prop', 'C03']), oracles=OWN),
              seq('pipeline', 'seq17', quick=dict(shards=16, args=['--mode', 'lazy', '--prop', 'C03']),
                  thorough=dict(shards=16, args=['--mode', 'lazy', '--prop', 'C03']), oracles=OWN),
              seq('exec_seq', 'seq17', quick=dict(shards=1, args=[]), thorough=dict(shards=1, args=[]),
                  oracles=r'^(ledger:|alloc:|asan:|crash:|exec:call-xor-drop)'),
              mc('handoff', 'mc-asan', quick=dict(P=99), thorough=dict(P=99), oracles=OWN),
              mc('chain', 'mc-asan', quick=dict(P=3, S=1), thorough=dict(P=4, S=1), oracles=OWN),
              mc('shared', 'mc-asan', quick=dict(P=2, S=1, cells='set=(value|drop),keep=0'), thorough=dict(P=3, S=1), oracles=OWN),
              mc('when_all', 'mc-asan', quick=dict(P=2), thorough=dict(P=3), oracles=OWN),
              mc('when_any', 'mc-asan', quick=dict(P=2), thorough=dict(P=3, as_tier='quick'), oracles=OWN),
              mc('timed_wait', 'mc-asan', quick=dict(P=2, T=1, cells='after=now'), thorough=dict(P=3, T=1), oracles=OWN),
              mc('strand', 'mc-asan', quick=dict(P=2, S=1, cells='stop=(stop|hard)'), thorough=dict(P=3, S=1), oracles=OWN),
              mc('pool', 'mc-asan', quick=dict(P=2, cells='stop=hard|stop=stop'), thorough=dict(P=3), oracles=OWN),
              mc('coro_await', 'mc-asan', quick=dict(P=3, S=1), thorough=dict(P=99, S=1), oracles=OWN),
              mc('wait_group', 'mc-asan', quick=dict(P=3, S=1, T=1, cells='act=(C|DC|AC)'), thorough=dict(P=99, S=1, T=1, as_tier='quick'), oracles=OWN)],
        assumptions=['bounds of the individual harnesses (C01, C06-C11, C13, C16) and of the pipeline enumerator (C02/C12)',
                     'objects the fiber layer itself keeps (stack cache) are outside the ledger; LeakSanitizer is replaced by the per-execution allocation balance'],
        technique='model checking: ownership oracles evaluated on every exhaustively enumerated schedule / program of the other harnesses',
    ),
    'C04': dict(
        title='No data races: what happened before fulfilment is visible after it',
        level_text='happens-before race monitor (vector clocks from the DECLARED memory orders: release/acquire, release sequences '
                   'through RMWs, acquire/release fences, mutex, spawn/join; every compiler-instrumented plain access of library and client '
                   'code incl. result storage, intrusive links, coroutine frames, vptr updates; operator delete = write to the block) '
                   'evaluated on every schedule explored by every explorer harness in the mc-hb variant: handoff (payload written before '
                   'Set, read after continuation / Get / Wait / Ready()==true), shared, strand and pool (plain fields written by consecutive '
                   'jobs), when_all, when_any, timed_wait, coro_await (co_await resumption), coro_mutex and coro_shared_mutex (plain data in '
                   'consecutive critical sections), wait_group, at their quick / thorough bounds',
        budget=dict(quick=600, thorough=3000),
        runs=[mc('handoff', 'mc-hb', quick=dict(P=99), thorough=dict(P=99), oracles=HB),
              mc('chain', 'mc-hb', quick=dict(P=3, S=1, cells='fin=Get'), thorough=dict(P=4, S=1), oracles=HB),
              mc('shared', 'mc-hb', quick=dict(P=2, S=1, cells='set=value'), thorough=dict(P=3, S=1), oracles=HB),
              mc('strand', 'mc-hb', quick=dict(P=2, S=1), thorough=dict(P=3, S=1), oracles=HB),
              mc('pool', 'mc-hb', quick=dict(P=2), thorough=dict(P=3), oracles=HB),
              mc('when_all', 'mc-hb', quick=dict(P=2, cells='pat=(VV|EV|XE|VVV|EVV)'), thorough=dict(P=3), oracles=HB),
              mc('when_any', 'mc-hb', quick=dict(P=2, cells='pat=(VV|EV|XE|VE|EE|VVV|EVV)'), thorough=dict(P=3, as_tier='quick'), oracles=HB),
              mc('timed_wait', 'mc-hb', quick=dict(P=2, T=1), thorough=dict(P=3, T=1), oracles=HB),
              mc('coro_await', 'mc-hb', quick=dict(P=3, S=1), thorough=dict(P=99, S=1), oracles=HB),
              mc('coro_mutex', 'mc-hb', quick=dict(P=3, S=1, cells='exe=(inline|pool1)'), thorough=dict(P=99, S=1), oracles=HB),
              mc('coro_shared_mutex', 'mc-hb', quick=dict(P=3, S=1, cells='exe=(inline|pool1)'), thorough=dict(P=99, S=1), oracles=HB),
              mc('wait_group', 'mc-hb', quick=dict(P=3, S=1, T=1), thorough=dict(P=99, S=1, T=1, as_tier='quick'), oracles=HB)],
        assumptions=['only sequentially consistent executions are enumerated: a defect that needs a stale value of a relaxed atomic to change '
                     'control flow WITHOUT leaving a pair of plain accesses unordered is out of reach (needs an axiomatic memory-model checker, not installed)',
                     'seq_cst is treated as acq_rel; FIBER instantiation of the library sources (production code path: no YACLIB_LOG_DEBUG, '
                     'YACLIB_TSAN undefined so AtomicCounter::SubEqual uses its shipped fence path)',
                     'bounds of the individual harnesses'],
        technique='model checking: happens-before race detection on every exhaustively enumerated schedule',
    ),
    'C05': dict(
        title='Executors: every job is Called xor Dropped, and steps run where they were told',
        level_text='(a) every pipeline program as in C02 with per-step executor choice among two instrumented executors and every '
                   'index k at which the second one starts refusing work: submissions per executor, Call xor Drop per job, the executor '
                   'context each Then(e)/Then()/Detach(e) body runs in, StopError routing after a refusal; (b) every schedule within '
                   'the preemption bound of the strand and pool harnesses (C07, C08) with counted jobs, including Stop/HardStop racing with Submit',
        budget=dict(quick=300, thorough=2400),
        runs=[seq('pipeline', 'seq17', quick=dict(shards=16, args=['--mode', 'exec', '--prop', 'C05']),
                  thorough=dict(shards=16, args=['--mode', 'exec', '--prop', 'C05'])),
              seq('pipeline', 'seq17', quick=dict(shards=16, args=['--mode', 'lazy', '--prop', 'C05']),
                  thorough=dict(shards=16, args=['--mode', 'lazy', '--prop', 'C05'])),
              mc('strand', 'mc-asan', quick=dict(P=2, S=1, cells='stop=(stop|hard)'), thorough=dict(P=3, S=1)),
              mc('pool', 'mc-asan', quick=dict(P=2, cells='k=1,j=[12]|k=2,j=1,resub=0'), thorough=dict(P=3)),
              mc('chain', 'mc-asan', quick=dict(P=3, S=1, cells='steps=.?[EQ]|src=task'), thorough=dict(P=4, S=1, cells='steps=.?[EQ]|src=task')),
              seq('exec_seq', 'seq17', quick=dict(shards=1, args=[]), thorough=dict(shards=1, args=[]))],
        assumptions=['exec_seq: every operation sequence of length <= 8 (thorough 10) over {submit, re-entrant submit, yaclib::Submit(functor), '
                     'drain, start refusing} on MakeInline(), MakeInline(StopTag), ManualExecutor and a refusing queue executor, used directly, '
                     'through a Strand and through a Strand over a Strand, single-threaded, against a list model',
                     'sequential part: C++17 / FAULT=OFF instantiation with instrumented inline executors; '
                     'concurrent part: FIBER instantiation, sequentially consistent executions, preemption bounds of C07/C08',
                     'co_await On(e) is covered in C13'],
        technique='bounded exhaustive enumeration of programs x rejection points against a reference model, plus exhaustive preemption-bounded schedule enumeration',
    ),
    'C12': dict(
        title='A Task does nothing until started, then behaves like the same eager pipeline',
        level_text='every lazy pipeline program of length <= 2 (thorough: 3 reduced) over the full step alphabet x 5 lazy sources '
                   '(MakeTask value/error, Schedule, LazyContract fulfilled inside / after start) x 6 ways of starting or abandoning '
                   '(ToFuture().Get, ToFuture(e).Get, Get, Detach, Detach(e), never started) plus inner Tasks returned from continuations '
                   '(MakeTask / Schedule / LazyContract heads): nothing runs or is submitted before the start, afterwards the invoked '
                   'steps, their arguments and the final Result equal the reference interpreter AND the eager twin of the same program; '
                   'ledger of functor captures and allocation balance are empty at the end',
        budget=dict(quick=200, thorough=1800),
        runs=[seq('pipeline', 'seq17', quick=dict(shards=16, args=['--mode', 'lazy', '--prop', 'C12']),
                  thorough=dict(shards=16, args=['--mode', 'lazy', '--prop', 'C12'])),
              mc('chain', 'mc-asan', quick=dict(P=3, S=1, cells='src=task'), thorough=dict(P=4, S=1, cells='src=task'))],
        assumptions=['C++17 / FAULT=OFF instantiation (plus ASan), single-threaded, instrumented inline executors; plus the explorer harness '
                     'chain with src=task: a Schedule(pool) Task with two further steps started by ToFuture while a pool worker and inner '
                     'producers run (nothing runs or is submitted before the start call on any schedule)',
                     'starts by co_await / Await and coroutine Task heads are covered in C13',
                     'pipeline length bound as stated'],
        technique='bounded exhaustive enumeration of operation sequences against a reference model and an eager twin (differential)',
    ),
    'C20': dict(
        title='Allocations: one per pipeline step, constant per combinator, none to wait',
        level_text='every pipeline program of the C02/C12 enumeration (length <= 2, eager and lazy) with operator new counted around '
                   'each source, attach and finish call (callback bodies bracketed out): at most 1 per step, 0 for Get/Detach()/start; '
                   'WhenAll / WhenAny / Join x 3 fail policies x pending/ready inputs x n = 1..8: the same number of blocks for every '
                   'n >= 2 and at most 4; Wait / WaitFor / WaitUntil (iterator n = 1..8, variadic n = 1,2,4; ready and timing out), '
                   'Future::Get and Strand::Submit of an existing job: 0; with coroutines enabled, co_await of a Future / SharedFuture and '
                   'Await / AwaitOn / AwaitSticky / AwaitInline over 1, 2, 4 futures (variadic and iterator forms), already complete and '
                   'completed while the coroutine is suspended: 0 between the statements around the co_await',
        budget=dict(quick=200, thorough=1200),
        runs=[seq('pipeline', 'seq17-plain', quick=dict(shards=16, args=['--mode', 'alloc', '--prop', 'C20']),
                  thorough=dict(shards=16, args=['--mode', 'alloc', '--prop', 'C20'])),
              seq('alloc', 'seq17-plain'),
              seq('alloc', 'seq20-plain')],
        assumptions=['C++17 / FAULT=OFF / NDEBUG / -O2 instantiation as shipped by the baseline, no sanitizer (allocation counts of the real build); '
                     'the co_await part in the same configuration with C++20 and coroutines enabled',
                     'blocks are counted, not bytes; the frame of a coroutine is attributed to the call of the coroutine, not to the co_await inside it'],
        technique='bounded exhaustive enumeration of programs and input counts with an allocation ledger',
    ),
    'C06': dict(
        title='SharedFuture: every observer sees the one value once, never before it exists',
        level_text='every schedule within (P<=2 quick / P<=3 thorough, one spurious weak-CAS failure) of one fulfilling '
                   'fiber and two observer fibers (thorough: also three at P<=2), each performing one of 16 observer '
                   'operations on its own copy, x {value, exception, dropped promise} x {bystander copy kept, dropped}',
        budget=dict(quick=240, thorough=2400),
        runs=[mc('shared', 'mc-asan', quick=dict(P=2, S=1), thorough=dict(P=3, S=1)),
              mc('shared', 'mc-hb', quick=dict(P=2, S=1, cells='set=value'), thorough=dict(P=3, S=1))],
        assumptions=['FIBER instantiation; sequentially consistent executions; preemption bound as stated',
                     'observers perform one operation each (thorough: pairs of operations are covered by the 3-observer cells only)'],
        technique='stateless model checking: exhaustive preemption-bounded schedule enumeration of the implementation',
    ),
    'C07': dict(
        title='Strand: one job at a time, in submission order, none lost',
        level_text='every schedule within the preemption bound (inline executor: P<=3 quick / all interleavings thorough; '
                   'real FairThreadPool(1|2) and strand-over-strand: P<=2 quick, P<=3 thorough for pool1) plus one spurious '
                   'weak-CAS failure, of 2-3 submitter fibers x 1-2 counted jobs, optionally with a fiber stopping '
                   '(Stop/HardStop) the underlying executor at any moment',
        budget=dict(quick=240, thorough=2400),
        runs=[mc('strand', 'mc-asan', quick=dict(P=2, S=1), thorough=dict(P=3, S=1)),
              mc('strand', 'mc-hb', quick=dict(P=2, S=1), thorough=dict(P=3, S=1)),
              seq('exec_seq', 'seq17', quick=dict(shards=1, args=[]), thorough=dict(shards=1, args=[]))],
        assumptions=['FIBER instantiation; sequentially consistent executions; preemption bound as stated',
                     'exec_seq (single submitting thread): every operation sequence of length <= 8 (thorough 10) on a Strand and a Strand over a '
                     'Strand over inline / stopped inline / manual / refusing queue executors incl. re-entrant submission from inside a job, against a list model',
                     'happens-before between consecutive jobs is checked by the HB monitor on plain fields written by every job'],
        technique='stateless model checking: exhaustive preemption-bounded schedule enumeration of the implementation',
    ),
    'C08': dict(
        title='FairThreadPool: accepted jobs all run, rejected ones drop, Wait means done',
        level_text='every schedule within the preemption bound (1 worker: P<=2 quick / P<=3 thorough; 2 workers: P<=1 / P<=2; '
                   'blocking switches and wake-up choices are free and fully enumerated) of 1-2 submitter fibers x 1-2 jobs '
                   '(optionally one job resubmitting from inside), the real worker fibers, and a fiber calling Stop / SoftStop / '
                   'HardStop at any moment (or Stop after all submissions), followed by Wait',
        budget=dict(quick=240, thorough=2400),
        runs=[mc('pool', 'mc-asan', quick=dict(P=2), thorough=dict(P=3)),
              mc('pool', 'mc-hb', quick=dict(P=2), thorough=dict(P=3))],
        assumptions=['FIBER instantiation (yaclib_std::mutex / condition_variable / thread are the cooperative fiber versions, '
                     'themselves checked in C18); sequentially consistent executions; preemption bound as stated'],
        technique='stateless model checking: exhaustive preemption-bounded schedule enumeration of the implementation',
    ),
    'C09': dict(
        title='WhenAll / Join complete once, at the right moment, with inputs in input order',
        level_text='every schedule within the preemption bound (P<=2 quick, P<=3 thorough; n=3: P<=2) of n=2 (thorough also 3) '
                   'producer fibers completing their inputs while the root fiber is still inside WhenAll/Join registering '
                   'them, x {FirstFail, None} x 10 input forms (static/dynamic, unique/shared/mixed, same-type/void/tuple, Join) '
                   'x all 9 value/error/exception patterns; oracles: once, index order, admissible first failure, timing window, ledger',
        budget=dict(quick=240, thorough=2400),
        runs=[mc('when_all', 'mc-asan', quick=dict(P=2), thorough=dict(P=3)),
              mc('when_all', 'mc-hb', quick=dict(P=2, cells='pat=(VV|EV|XE|VVV|EVV)'), thorough=dict(P=3))],
        assumptions=['FIBER instantiation; sequentially consistent executions; preemption bound as stated',
                     'timing oracle uses the explorer event counter as clock'],
        technique='stateless model checking: exhaustive preemption-bounded schedule enumeration of the implementation',
    ),
    'C10': dict(
        title='WhenAny completes once with the right winner for each fail policy',
        level_text='every schedule within the preemption bound (P<=2 quick, P<=3 thorough; n=3: P<=2) of n=2 (thorough also 3; '
                   'n=1 and empty input as single cells) producer fibers completing their inputs while the root fiber is still '
                   'inside WhenAny registering them, x {LastFail, FirstFail, None} x 7 input forms (static/dynamic, unique/shared, '
                   'same-type/void/variant) x all 9 value/error/exception patterns; oracles: once, admissible winner for the policy '
                   'and the observed completion windows, timing window, ledger',
        budget=dict(quick=240, thorough=2400),
        runs=[mc('when_any', 'mc-asan', quick=dict(P=2), thorough=dict(P=3)),
              mc('when_any', 'mc-hb', quick=dict(P=2, cells='pat=(VV|EV|XE|VE|EE|VVV|EVV|V,|E,|X,|-)'), thorough=dict(P=3))],
        assumptions=['FIBER instantiation; sequentially consistent executions; preemption bound as stated',
                     'timing oracle uses the explorer event counter as clock'],
        technique='stateless model checking: exhaustive preemption-bounded schedule enumeration of the implementation',
    ),
    'C11': dict(
        title='Wait returns only when ready; a timed-out wait leaves the futures intact',
        level_text='every schedule within (P<=3 one future / P<=2 two futures quick; all interleavings / P<=3 thorough; the '
                   'deadline passes by explorer choice at any decision point, T<=1 per wait, two consecutive waits T<=2) of a '
                   'waiter calling Wait / WaitFor / WaitUntil in the single-future, variadic and iterator forms (shared futures '
                   'for untimed Wait) against one producer fiber per future, then consuming every future by Get / continuation / '
                   'Wait+Touch, either at once or after the producers finished (dead-frame monitor)',
        budget=dict(quick=240, thorough=2400),
        runs=[mc('timed_wait', 'mc-asan', quick=dict(P=2, T=1), thorough=dict(P=3, T=1)),
              mc('timed_wait', 'mc-hb', quick=dict(P=2, T=1), thorough=dict(P=3, T=1))],
        assumptions=['FIBER instantiation with virtual time: a timed wait expires only by an explicit explorer choice or when '
                     'nothing else can run, which covers every relative position of the deadline',
                     'sequentially consistent executions; preemption bound as stated'],
        technique='stateless model checking: exhaustive preemption- and timer-bounded schedule enumeration of the implementation',
    ),
    'C13': dict(
        title='Coroutines resume once, after the awaited event, with its outcome, where asked',
        level_text='every schedule (all interleavings for one awaited object; P<=3 quick / all thorough for two) of a coroutine '
                   'returning Future that performs one await (co_await future / shared future / Task, Await of 1-2 futures incl. shared, '
                   'mixed and iterator forms, AwaitOn(e, ...) alive and stopped, AwaitSticky single and variadic, On(e) alive and stopped, '
                   'kYield, Yield(), CurrentExecutor(), Await(task) / co_await task over MakeTask, MakeTask+Then, Schedule, LazyContract '
                   'and coroutine Task heads, a second coroutine awaiting the same SharedFuture) against 1-2 producer fibers completing '
                   'with value / error / exception; started inline or after co_await On(e); with and without symmetric transfer; in '
                   'the ASan variant and under the happens-before monitor',
        budget=dict(quick=300, thorough=2400),
        runs=[mc('coro_await', 'mc-asan', quick=dict(P=3, S=1), thorough=dict(P=99, S=1)),
              mc('coro_await', 'mc-asan-nost', quick=dict(P=3, S=1), thorough=dict(P=99, S=1)),
              mc('coro_await', 'mc-hb', quick=dict(P=3, S=1), thorough=dict(P=99, S=1)),
              mc('coro_await', 'mc-hb-nost', quick=dict(P=3, S=1, cells='n=1|n=0'), thorough=dict(P=99, S=1))],
        assumptions=['FIBER instantiation, g++ 12 coroutine lowering; sequentially consistent executions',
                     'one await per coroutine body (plus the initial co_await On(e)); executors are instrumented inline executors'],
        technique='stateless model checking: exhaustive schedule enumeration of the implementation',
    ),
    'C14': dict(
        title='coroutine Mutex: mutual exclusion and no lost wake-up',
        level_text='every schedule within the preemption bound (2 coroutines, one round: P<=3 quick / all interleavings thorough; '
                   'two rounds: P<=3 / P<=4; 3 coroutines: P<=2 / P<=3; FairThreadPool(1): P<=2 / P<=3; FairThreadPool(2): P<=1) plus one '
                   'spurious weak-CAS failure, of 2-3 coroutines started on their own fibers doing 1-2 lock/unlock rounds on '
                   'Mutex<Batching,FIFO> for the four option pairs, through 12 (lock form, unlock form) combinations (Lock, TryLock, '
                   'Guard, TryGuard, GuardSticky x Unlock, UnlockOn, UnlockHere, guard destruction, guard Unlock/UnlockOn/UnlockHere), '
                   'running inline, on instrumented inline executors or on a real pool; plus a chain cell in which the arrival order '
                   'A,B,C is fixed by construction and FIFO grants must follow it; both transfer modes; ASan variant and HB monitor',
        budget=dict(quick=300, thorough=2700),
        runs=[mc('coro_mutex', 'mc-asan', quick=dict(P=3, S=1), thorough=dict(P=99, S=1)),
              mc('coro_mutex', 'mc-hb', quick=dict(P=3, S=1, cells='exe=(inline|pool1)'), thorough=dict(P=99, S=1)),
              mc('coro_mutex', 'mc-asan-nost', quick=dict(P=3, S=1, cells='exe=(ex|pool1)|mode=chain'), thorough=dict(P=99, S=1))],
        assumptions=['FIBER instantiation, g++ 12 coroutine lowering; sequentially consistent executions; preemption bounds as stated',
                     'FIFO is checked on the chain cell where arrival order is fixed by construction (spawn edges), not by timestamps'],
        technique='stateless model checking: exhaustive preemption-bounded schedule enumeration of the implementation',
    ),
    'C16': dict(
        title='WaitGroup/OneShotEvent release every waiter exactly when the count hits zero',
        level_text='every schedule within the preemption bound (<= 2 fibers: P<=3 quick / all interleavings thorough; 3 fibers P<=2 / P<=3; '
                   'more P<=2), one spurious weak-CAS failure and one timer firing per timed wait, of actor sets {Done, Done+Done, attached '
                   'future, consumed future, Done+attached, Done+consumed, attached+consumed, Add-while-non-zero + Done} each on its own '
                   'fiber against 1-2 waiters from {Wait, WaitFor, WaitUntil, co_await inline, AwaitSticky, AwaitOn(e)} registering at any '
                   'moment, plus a waiter arriving after zero; and the bare OneShotEvent (TryAdd / Wait vs Set, Ready, Reset); ASan variant '
                   '(the two-owner TimedWaiter is freed exactly once on every schedule) and HB monitor',
        budget=dict(quick=300, thorough=2400),
        runs=[mc('wait_group', 'mc-asan', quick=dict(P=3, S=1, T=1), thorough=dict(P=99, S=1, T=1)),
              mc('wait_group', 'mc-hb', quick=dict(P=3, S=1, T=1), thorough=dict(P=99, S=1, T=1)),
              mc('wait_group', 'mc-asan-nost', quick=dict(P=3, S=1, T=1, cells='w0=co|w1=co'), thorough=dict(P=99, S=1, T=1))],
        assumptions=['FIBER instantiation with virtual time; sequentially consistent executions; preemption bounds as stated',
                     'Add is only called while the count is non-zero (documented rule)'],
        technique='stateless model checking: exhaustive preemption- and timer-bounded schedule enumeration of the implementation',
    ),
    'C17': dict(
        title='Fiber fault-injection runs are reproducible from their seed',
        level_text='(a) rng-level exploration: only the random engine is hooked, the real injection counter, list-pick arithmetic, '
                   'spurious-failure draw, sleep jitter and scheduler run; EVERY sequence of engine answers up to depth 12 (thorough 16; all '
                   'domains have size 2 by configuration) for 5 client programs (pool + strand pipeline, timed waits, coroutine mutex on a pool, '
                   'condition-variable ping-pong, timed-mutex hand-off) is executed twice in one process after SetSeed + injector reset and '
                   'every 32nd (256th) sequence once more in a freshly exec\'ed process; traces of resumed fibers, engine draws, visible '
                   'operations, client events, injected count, random count and virtual time must be identical; (b) bounded real-seed '
                   'enumeration of the restore API: seeds 0..255 (4095) x fault frequency {1,2,5} x pick width {1,2,10} x jitter {1,7}: '
                   'phase B after SetSeed + ForwardToFaultRandomCount + SetInjectorState equals phase B of the whole run; (c) crash probe of an '
                   'edge program under real seeds',
        budget=dict(quick=200, thorough=1500),
        runs=[seq('repro', 'fib-asan')],
        assumptions=['"all seeds" is covered as all engine answer sequences up to the stated depth (exhaustive) plus a bounded seed range (exhaustive within the range)',
                     'the explorer\'s own prefix-replay divergence check over every execution of every other harness is further evidence (any divergence is a hard error there)'],
        technique='bounded exhaustive enumeration of random-engine answer sequences on the real scheduler, each replayed in-process and across processes',
    ),
    'C15': dict(
        title='coroutine SharedMutex: writers exclude all, readers share, nobody is forgotten',
        level_text='every schedule within the preemption bound (2 coroutines one round: P<=3 quick / all interleavings thorough; two '
                   'rounds P<=3 / P<=4; 3 coroutines P<=2 / P<=3; 4 coroutines P<=2; FairThreadPool(1) P<=2 / P<=3 (3 coroutines: 1); '
                   'FairThreadPool(2) P<=1) plus one spurious weak-CAS failure, of (1 writer,1 reader), (1,2), (2,1) (thorough also (2,2),(1,3)) '
                   'coroutines started on their own fibers on SharedMutex<FIFO,ReadersFIFO> for the four option pairs, through Lock, '
                   'LockShared, Guard, GuardShared, TryLock, TryLockShared, TryGuard, TryGuardShared, UnlockHere, UnlockHereShared and guard '
                   'destruction, inline / instrumented inline executors / real pool; the internal spinlock is handled by spin detection '
                   '(a fiber re-reading an unchanged value is descheduled until it changes); ASan variant and HB monitor',
        budget=dict(quick=300, thorough=2700),
        runs=[mc('coro_shared_mutex', 'mc-asan', quick=dict(P=3, S=1), thorough=dict(P=99, S=1)),
              mc('coro_shared_mutex', 'mc-hb', quick=dict(P=3, S=1, cells='exe=(inline|pool1)'), thorough=dict(P=99, S=1)),
              mc('coro_shared_mutex', 'mc-asan-nost', quick=dict(P=3, S=1, cells='exe=ex'), thorough=dict(P=99, S=1))],
        assumptions=['FIBER instantiation, g++ 12 coroutine lowering; sequentially consistent executions; preemption bounds as stated'],
        technique='stateless model checking: exhaustive preemption-bounded schedule enumeration of the implementation',
    ),
    'C18': dict(
        title='yaclib_std locks, condition variables and threads behave like std under fibers',
        level_text='EVERY injection point of the fault layer is a decision (not only synchronisation events), the '
                   'SharedMutex::unlock coin and every wake-up choice are enumerated; within P<=3 quick / all interleavings thorough '
                   '(three fibers or two cv waiters: P<=2 / P<=3), timer T<=1: two fibers x every sequence of <= 2 sections (thorough: '
                   'all pairs; quick: at most one fiber with two) and three fibers x one section over each of mutex, timed_mutex, '
                   'recursive_mutex, recursive_timed_mutex, shared_mutex, shared_timed_mutex (lock, try_lock, try_lock_for, the shared '
                   'forms, nested re-locking of recursive kinds); condition_variable wait / wait(pred) / wait_for / wait_until x 1-2 '
                   'waiters x notify_one/all x inside/outside the lock; thread spawn/join, sleep_for, thread-local pointers; checked '
                   'against a reference model of the std contracts (inner/outer holder intervals, virtual-clock deadlines, deadlock = lost wake-up)',
        budget=dict(quick=240, thorough=2400),
        runs=[mc('std_prims', 'mc-asan', quick=dict(P=3, T=1), thorough=dict(P=99, T=1))],
        assumptions=['only operation sequences that respect the std preconditions are generated',
                     'virtual time: a timed wait expires only by explorer choice or when nothing else can run',
                     'condition_variable_any, call_once, semaphores, latch, barrier are not implemented by the FIBER backend (upstream TODO) and not covered'],
        technique='stateless model checking with every fault-injection point a scheduling decision, against a reference model',
    ),
    'C19': dict(
        title='yaclib_std::atomic computes what std::atomic computes',
        level_text='every operation sequence up to length 2 (bool, T*: 3) over the full operation alphabet x operand set '
                   'x 12 types x {FIBER, THREAD} backend, with the spurious-failure answer of every weak CAS enumerated, '
                   'compared step by step with std::atomic',
        budget=dict(quick=120, thorough=900),
        runs=[seq('atomic_diff', 'at-fiber'), seq('atomic_diff', 'at-thread')],
        assumptions=['operand alphabet {0,1,2,-1,min,max,max/3} (pointers: offsets into one array; floats: 0,1,-1.5,1e10[,max,min])',
                     'std::atomic of libstdc++ on this machine is the reference',
                     'volatile-qualified overloads are not exercised'],
        technique='bounded exhaustive enumeration of operation sequences, differential against std::atomic',
    ),
}


def load_known():
    p = os.path.join(VERIF, 'known_findings.json')
    if not os.path.exists(p):
        return []
    return json.load(open(p))


def match_known(known, prop, harness, cell, oracle):
    import fnmatch
    for k in known:
        if k.get('status') != 'known':
            continue
        if k['property'] != prop:
            continue
        if k.get('harness') not in (None, '*', harness):
            continue
        if not fnmatch.fnmatchcase(cell, k.get('cell', '*')):
            continue
        if not fnmatch.fnmatchcase(oracle, k.get('oracle', '*')):
            continue
        return k
    return None


def run_chunk(binp, cells, opts, outp, deadline_s):
    cf = outp + '.cells'
    with open(cf, 'w') as f:
        f.write('\n'.join(cells) + '\n')
    cmd = [binp, '--cells-file', cf, '--out', outp, '--tier', opts['tier'],
           '--P', str(opts.get('P', 2)), '--S', str(opts.get('S', 0)), '--T', str(opts.get('T', 0)),
           '--deadline', '%.1f' % max(1.0, deadline_s)]
    if opts.get('all_points'):
        cmd.append('--all-points')
    if opts.get('rand_choice'):
        cmd.append('--rand-choice')
    if opts.get('max_exec'):
        cmd += ['--max-exec', str(opts['max_exec'])]
    if opts.get('no_cache'):
        cmd.append('--no-cache')
    env = dict(os.environ)
    env['ASAN_OPTIONS'] = ASAN_OPTIONS
    if opts.get('force_bounds'):
        env['VX_FORCE_BOUNDS'] = '1'
    r = subprocess.run(cmd, stdout=subprocess.PIPE, stderr=subprocess.STDOUT, text=True, env=env)
    res = None
    if os.path.exists(outp):
        try:
            res = json.load(open(outp))
        except Exception as e:  # noqa
            res = None
    for x in (cf,):
        try:
            os.unlink(x)
        except OSError:
            pass
    return r.returncode, r.stdout, res


def run_mc(prop, run, tier, seed, t_end, work):
    """Runs one explorer harness over all its cells in parallel.  Returns list of cell results."""
    vname = run['variant']
    binp = os.path.join(BUILD, vname, 'bin', run['harness'])
    opts = dict(run[tier])
    # a run of the thorough tier may ask for the harness's quick cell set and bounds (aggregate checks C03/C04: the heaviest
    # harnesses are explored at their thorough bounds by the check of their own property, with the same oracles switched on)
    opts['tier'] = opts.pop('as_tier', tier)
    env = dict(os.environ)
    env['ASAN_OPTIONS'] = ASAN_OPTIONS
    cells = subprocess.run([binp, '--list-cells', '--tier', opts['tier']], stdout=subprocess.PIPE, text=True, env=env,
                           check=True).stdout.split('\n')
    cells = [c for c in cells if c]
    if opts.get('cells'):
        rx = re.compile(opts['cells'])
        cells = [c for c in cells if rx.search(c)]
    if not cells:
        raise SystemExit('MACHINERY-ERROR: no cells for %s' % run['harness'])
    # rotate the start order by the seed so a capped run does not always cut the same tail
    k = seed % len(cells)
    cells = cells[k:] + cells[:k]
    nchunks = min(len(cells), NPROC * 4)
    chunks = [cells[i::nchunks] for i in range(nchunks)]
    results = []
    errors = []
    with concurrent.futures.ThreadPoolExecutor(max_workers=NPROC) as ex:
        futs = []
        for i, ch in enumerate(chunks):
            outp = os.path.join(work, '%s-%s-%d.json' % (run['harness'], vname, i))
            futs.append(ex.submit(lambda ch=ch, outp=outp: run_chunk(binp, ch, opts, outp, t_end - time.time())))
        for f, ch in zip(futs, chunks):
            rc, out, res = f.result()
            if res is None or rc == 2:
                errors.append('chunk of %s failed rc=%s: %s' % (run['harness'], rc, (out or '')[-1500:]))
            if res is not None:
                for c in res['cells']:
                    c['harness'] = run['harness']
                    c['variant'] = vname
                    results.append(c)
    return results, errors


def crosscheck(harnesses, P, ncells, variant='mc-asan', deadline=600.0, tier='quick'):
    """State-cache cross-check: the same cells explored with the cache and without it must reach the same
    set of final partial-order fingerprints and the same set of outcomes."""
    names = harnesses or sorted(h for h, d in HARNESSES.items() if d['kind'] == 'mc' and h != 'std_prims')
    build([(h, variant) for h in names])
    work = os.path.join(BUILD, 'work', 'crosscheck')
    shutil.rmtree(work, ignore_errors=True)
    os.makedirs(work)
    env = dict(os.environ)
    env['ASAN_OPTIONS'] = ASAN_OPTIONS
    report = []
    bad = 0
    for h in names:
        binp = os.path.join(BUILD, variant, 'bin', h)
        cells = [c for c in subprocess.run([binp, '--list-cells', '--tier', tier], stdout=subprocess.PIPE, text=True, env=env,
                                           check=True).stdout.split('\n') if c]
        stride = max(1, len(cells) // ncells)
        pick = cells[stride // 2::stride][:ncells]
        t_end = time.time() + deadline
        res = {}
        with concurrent.futures.ThreadPoolExecutor(max_workers=NPROC) as ex:
            futs = {}
            # plain search of these two at P=2 takes tens of minutes per cell: P=1 unless asked for by name (VX_XC_FULL=1)
            Ph = min(P, 1) if h in ('pool', 'strand') and not os.environ.get('VX_XC_FULL') else P
            for mode in ('cache', 'nocache'):
                for i, c in enumerate(pick):
                    opts = dict(tier=tier, P=Ph, S=1, T=1, force_bounds=True, no_cache=(mode == 'nocache'))
                    outp = os.path.join(work, '%s-%s-%d.json' % (h, mode, i))
                    futs[(mode, i)] = ex.submit(lambda c=c, opts=opts, outp=outp: run_chunk(binp, [c], opts, outp, t_end - time.time()))
            for k, f in futs.items():
                rc, out, r = f.result()
                res[k] = r['cells'][0] if r and r.get('cells') else None
        for i, c in enumerate(pick):
            a, b = res[('cache', i)], res[('nocache', i)]
            row = dict(harness=h, cell=c, P=Ph)
            if not a or not b or not a.get('exhaustive') or not b.get('exhaustive'):
                row['status'] = 'incomplete'
            else:
                keys = ('distinct_finals', 'finals_xor', 'distinct_outcomes', 'outcomes_xor')
                same = all(a[k] == b[k] for k in keys) and a['finals_invalid'] == 0 and b['finals_invalid'] == 0
                nv = lambda x: sorted((v['oracle']) for v in x['violations'])
                same = same and nv(a) == nv(b)
                row.update(status='same' if same else 'DIFFERENT', executions_cache=a['executions'], executions_nocache=b['executions'],
                           finals=a['distinct_finals'], finals_nocache=b['distinct_finals'], outcomes=a['distinct_outcomes'],
                           outcomes_nocache=b['distinct_outcomes'])
                if not same:
                    bad += 1
            report.append(row)
        rows = [r for r in report if r['harness'] == h]
        print('%-18s cells=%d same=%d different=%d incomplete=%d executions cache=%d nocache=%d' % (
            h, len(rows), sum(r['status'] == 'same' for r in rows), sum(r['status'] == 'DIFFERENT' for r in rows),
            sum(r['status'] == 'incomplete' for r in rows), sum(r.get('executions_cache', 0) for r in rows),
            sum(r.get('executions_nocache', 0) for r in rows)))
        sys.stdout.flush()
    outname = 'cache_crosscheck.json' if not harnesses else 'cache_crosscheck_%s.json' % '_'.join(harnesses)
    json.dump(dict(P=P, variant=variant, rows=report), open(os.path.join(VERIF, outname), 'w'), indent=1)
    return 2 if bad else 0


def mini_crosscheck(run, tier, work, ncells, deadline_s=120.0):
    """Part of every explorer check: a few cells of the harness explored at P=1 with and without the state
    cache must reach the same final fingerprints, outcomes and violations."""
    vname = run['variant']
    binp = os.path.join(BUILD, vname, 'bin', run['harness'])
    env = dict(os.environ)
    env['ASAN_OPTIONS'] = ASAN_OPTIONS
    cells = [c for c in subprocess.run([binp, '--list-cells', '--tier', tier], stdout=subprocess.PIPE, text=True, env=env,
                                       check=True).stdout.split('\n') if c]
    if run[tier].get('cells'):
        rx = re.compile(run[tier]['cells'])
        cells = [c for c in cells if rx.search(c)]
    stride = max(1, len(cells) // ncells)
    pick = cells[stride // 3::stride][:ncells]
    t_end = time.time() + deadline_s
    out = dict(harness=run['harness'], variant=vname, bound='P=1', cells=len(pick), same=0, different=[], incomplete=0,
               executions_cache=0, executions_nocache=0)
    with concurrent.futures.ThreadPoolExecutor(max_workers=NPROC) as ex:
        futs = {}
        for mode in ('cache', 'nocache'):
            for i, c in enumerate(pick):
                opts = dict(tier=tier, P=1, S=1, T=1, force_bounds=True, no_cache=(mode == 'nocache'))
                outp = os.path.join(work, 'xc-%s-%s-%s-%d.json' % (run['harness'], vname, mode, i))
                futs[(mode, i)] = ex.submit(lambda c=c, opts=opts, outp=outp: run_chunk(binp, [c], opts, outp, t_end - time.time()))
        res = {}
        for k, f in futs.items():
            rc, txt, r = f.result()
            res[k] = r['cells'][0] if r and r.get('cells') else None
    for i, c in enumerate(pick):
        a, b = res[('cache', i)], res[('nocache', i)]
        if not a or not b or not a.get('exhaustive') or not b.get('exhaustive'):
            out['incomplete'] += 1
            continue
        out['executions_cache'] += a['executions']
        out['executions_nocache'] += b['executions']
        keys = ('distinct_finals', 'finals_xor', 'distinct_outcomes', 'outcomes_xor', 'finals_invalid')
        nv = lambda x: sorted(v['oracle'] for v in x['violations'])
        if all(a[k] == b[k] for k in keys) and nv(a) == nv(b):
            out['same'] += 1
        else:
            out['different'].append(c)
    return out


def run_harness(harness, variant, tier, cells_rx=None, deadline=600.0):
    """Development aid: runs one explorer harness at its own bounds and prints a summary (no evidence written)."""
    build([(harness, variant)])
    work = os.path.join(BUILD, 'work', 'dev-%s' % harness)
    shutil.rmtree(work, ignore_errors=True)
    os.makedirs(work)
    run = mc(harness, variant, quick=dict(P=2, S=1, T=1), thorough=dict(P=3, S=1, T=1))
    if cells_rx:
        run[tier]['cells'] = cells_rx
    t0 = time.time()
    res, errs = run_mc('dev', run, tier, 0, time.time() + deadline, work)
    res.sort(key=lambda c: -c.get('wall_s', 0))
    for c in res[:12]:
        print('  slowest: %-60s %s executions=%d wall=%.1fs exhaustive=%s' % (c['cell'], c.get('bounds'), c['executions'], c.get('wall_s', 0), c['exhaustive']))
    outcomes = {}
    for c in res:
        for v in c.get('violations', []):
            outcomes.setdefault(v['oracle'], []).append((c['cell'], v['text'][:240], v.get('count')))
    for o, l in outcomes.items():
        print('VIOLATION oracle=%s cells=%d e.g. %s' % (o, len(l), l[0]))
        for x in l[1:6]:
            print('     ', x[0])
    print('%s/%s %s: cells=%d executions=%d exhaustive=%d/%d violations=%d errors=%d wall=%.1fs' % (
        harness, variant, tier, len(res), sum(c['executions'] for c in res), sum(1 for c in res if c['exhaustive']), len(res),
        sum(len(c.get('violations', [])) for c in res), len(errs), time.time() - t0))
    for e in errs[:5]:
        print('ERROR', e[:600])
    return 0


def check(prop, tier):
    t0 = time.time()
    spec = CHECKS[prop]
    seed = int(os.environ.get('VERIF_SEED', '0') or 0)
    budget = spec['budget'][tier]
    if os.environ.get('VERIF_BUDGET_S'):
        budget = float(os.environ['VERIF_BUDGET_S'])
    targets = sorted({(r['harness'], r['variant']) for r in spec['runs']})
    build(targets)
    t_build = time.time() - t0
    t_end = time.time() + budget
    work = os.path.join(BUILD, 'work', '%s-%s' % (prop, tier))
    os.makedirs(work, exist_ok=True)
    for f in glob.glob(os.path.join(work, '*')):
        try:
            os.unlink(f)
        except OSError:
            pass
    known = load_known()
    all_cells = []
    errors = []
    nruns = len(spec['runs'])
    for i, run in enumerate(spec['runs']):
        # a run may use what it needs of the remaining budget, but must leave every later run a minimum share, so that a
        # run that does not finish cannot starve the others (measured: the runs differ by two orders of magnitude)
        left = t_end - time.time()
        reserve = min(120.0, 0.25 * budget / nruns)
        share_end = time.time() + max(left / (nruns - i), left - reserve * (nruns - i - 1))
        if run['kind'] == 'mc':
            res, errs = run_mc(prop, run, tier, seed, share_end, work)
        else:
            res, errs = run_seq(prop, run, tier, seed, share_end, work)
        for c in res:
            c['_oracles'] = run.get('oracles')
        all_cells += res
        errors += errs
    # ---- state-cache cross-check on a few cells of every explorer harness this check uses ----
    xcs = []
    mc_runs = [r for r in spec['runs'] if r['kind'] == 'mc' and not r[tier].get('all_points') and r['variant'].startswith('mc-asan')]
    seen_h = set()
    for run in mc_runs:
        if (run['harness'], run['variant']) in seen_h:
            continue
        seen_h.add((run['harness'], run['variant']))
        xc = mini_crosscheck(run, tier, work, 4 if len(mc_runs) <= 3 else 1)
        xcs.append(xc)
        for c in xc['different']:
            errors.append('state cache cross-check failed: harness %s cell %s reaches different final states with and '
                          'without the cache at P=1' % (run['harness'], c))
    # ---- verdict ----
    os.makedirs(os.path.join(VERIF, 'replays'), exist_ok=True)
    os.makedirs(os.path.join(VERIF, 'evidence'), exist_ok=True)
    for f in glob.glob(os.path.join(VERIF, 'replays', '%s-*.json' % prop)):
        os.unlink(f)
    viol_lines = []
    known_lines = []
    nviol = 0
    nrep = 0
    for c in all_cells:
        if c.get('machinery_error'):
            errors.append('%s/%s cell %s: %s' % (c['harness'], c['variant'], c['cell'], c['machinery_error']))
        for v in c.get('violations', []):
            if c['_oracles'] and not re.search(c['_oracles'], v['oracle']):
                continue
            k = match_known(known, prop, c['harness'], c['cell'], v['oracle'])
            if k is not None:
                line = 'KNOWN-FINDING: property=%s %s [harness=%s cell=%s oracle=%s]' % (
                    prop, k.get('text', ''), c['harness'], c['cell'], v['oracle'])
                if line not in known_lines:
                    known_lines.append(line)
                continue
            nviol += 1
            nrep += 1
            rp = os.path.join(VERIF, 'replays', '%s-%s-%s-%d.json' % (prop, c['harness'], c['variant'], nrep))
            with open(rp, 'w') as f:
                json.dump(dict(cell=c['cell'], bounds=c.get('bounds', {}), property=prop, harness=c['harness'],
                               variant=c['variant'], oracle=v['oracle'], count=v.get('count', 1),
                               preemptions=v.get('preemptions'), fatal=v.get('fatal'), path=v.get('path', []),
                               program=v.get('program'), code=v.get('code'), text=v['text']), f)
                f.write('\n')
            viol_lines.append('VIOLATION property=%s replay=%s' % (prop, rp))
            viol_lines.append('  harness=%s variant=%s cell=%s oracle=%s count=%s :: %s' % (
                c['harness'], c['variant'], c['cell'], v['oracle'], v.get('count', 1), v['text'][:300]))
    execs = sum(c.get('executions', 0) for c in all_cells)
    states = sum(c.get('nodes', 0) for c in all_cells)
    trans = sum(c.get('transitions', 0) for c in all_cells)
    distinct = sum(max(0, c.get('distinct_traces', 0) - 1) for c in all_cells)
    exhaustive = bool(all_cells) and all(c.get('exhaustive') for c in all_cells) and not errors
    samples = []
    for c in all_cells:
        if c.get('sample_schedules') and len(samples) < 6 and c.get('executions', 0) > 1:
            samples.append(dict(harness=c['harness'], variant=c['variant'], cell=c['cell'], bounds=c.get('bounds'),
                                schedules=c['sample_schedules'], outcomes=c.get('sample_outcomes', [])))
        elif c.get('sample_programs') and len(samples) < 6:
            samples.append(dict(harness=c['harness'], variant=c['variant'], cell=c['cell'],
                                programs=c['sample_programs']))
    cell_summ = []
    for c in all_cells:
        cell_summ.append({k: c.get(k) for k in ('harness', 'variant', 'cell', 'bounds', 'executions', 'nodes',
                                                  'transitions', 'events', 'distinct_traces', 'distinct_outcomes',
                                                  'max_depth', 'exhaustive', 'cap', 'failing_executions',
                                                  'replay_checks', 'hb_accesses', 'wall_s', 'skipped')
                          if c.get(k) is not None})
    capped = [c for c in all_cells if not c.get('exhaustive')]
    per_run = {}
    for c in all_cells:
        d = per_run.setdefault((c['harness'], c['variant']), dict(harness=c['harness'], variant=c['variant'], cells=0, executions=0,
                                                                   states=0, exhaustive_cells=0, bounds=set(), wall_s=0.0))
        d['cells'] += 1
        d['executions'] += c.get('executions', 0)
        d['states'] += c.get('nodes', 0)
        d['exhaustive_cells'] += 1 if c.get('exhaustive') else 0
        d['wall_s'] += c.get('wall_s', 0) or 0
        b = c.get('bounds') or {}
        if 'P' in b:
            d['bounds'].add((b['P'], b.get('S', 0), b.get('T', 0)))
    runs_summ = []
    for d in per_run.values():
        d['bounds'] = [dict(P=p_, S=s_, T=t_) for (p_, s_, t_) in sorted(d['bounds'])]
        d['wall_s'] = round(d['wall_s'], 1)
        runs_summ.append(d)
    ev = dict(
        property_id=prop, tier=tier, seed=seed, level='model_checking',
        coverage=dict(
            states=max(states, 0), transitions=max(trans, 0), traces_validated_against_impl=execs,
            evaluations=execs, distinct_nontrivial=distinct,
            rule='every execution is a complete run of the real YACLib code under the explorer, one per schedule '
                 '(sequence of scheduling / spurious-failure / timer choices) within the stated bounds, or one per '
                 'program of the sequential enumerator; states = nodes of the explored choice tree, transitions = '
                 'choice-tree edges traversed; distinct_nontrivial = per cell, distinct event traces other than '
                 'the default schedule (hash of the sequence of (fiber, operation kind, object) over all visible operations)',
            samples=samples, exhaustive=exhaustive,
            cells_total=len(all_cells), cells_capped=len(capped),
            capped=[dict(harness=c['harness'], cell=c['cell'], cap=c.get('cap') or c.get('skipped')) for c in capped][:40],
            distinct_outcomes=sum(c.get('distinct_outcomes', 0) for c in all_cells),
            replay_divergences=0 if not errors else len(errors),
            failure_replays=sum(c.get('replay_checks', 0) for c in all_cells),
            hb_accesses=sum(c.get('hb_accesses', 0) for c in all_cells),
            known_findings=known_lines, machinery_errors=errors[:10], build_s=round(t_build, 1),
            cache_crosscheck=xcs, runs=runs_summ,
            cells=cell_summ if len(cell_summ) <= 400 else cell_summ[:400],
        ),
        assumptions=spec.get('assumptions', []),
        wall_s=round(time.time() - t0, 2), violations=nviol,
    )
    with open(os.path.join(VERIF, 'evidence', prop + '.json'), 'w') as f:
        json.dump(ev, f, indent=1)
        f.write('\n')
    for l in known_lines:
        print(l)
    for l in viol_lines:
        print(l)
    print('%s %s: cells=%d executions=%d states=%d exhaustive=%s violations=%d known=%d wall=%.1fs (build %.1fs)' % (
        prop, tier, len(all_cells), execs, states, exhaustive, nviol, len(known_lines), time.time() - t0, t_build))
    if errors:
        for e in errors[:10]:
            print('MACHINERY-ERROR:', e)
    # replayable violations decide first; a machinery error alone (divergence, a crash that does not reproduce,
    # cache cross-check mismatch) is exit 2 and never a VIOLATION line
    return 1 if nviol else (2 if errors else 0)


def run_seq(prop, run, tier, seed, t_end, work):
    """Runs a sequential enumerator binary, optionally sharded.  Same result format as the explorer."""
    vname = run['variant']
    binp = os.path.join(BUILD, vname, 'bin', run['harness'])
    opts = dict(run[tier])
    nshards = int(opts.get('shards', 1))
    env = dict(os.environ)
    env['ASAN_OPTIONS'] = ASAN_OPTIONS
    results, errors = [], []

    def one(i):
        outp = os.path.join(work, '%s-%s-%d.json' % (run['harness'], vname, i))
        cmd = [binp, '--tier', tier, '--out', outp, '--shard', str(i), '--nshards', str(nshards),
               '--deadline', '%.1f' % max(1.0, t_end - time.time())] + [str(x) for x in opts.get('args', [])]
        r = subprocess.run(cmd, stdout=subprocess.PIPE, stderr=subprocess.STDOUT, text=True, env=env)
        res = None
        if os.path.exists(outp):
            try:
                res = json.load(open(outp))
            except Exception:  # noqa
                res = None
        return r.returncode, r.stdout, res

    with concurrent.futures.ThreadPoolExecutor(max_workers=NPROC) as ex:
        for rc, out, res in ex.map(one, range(nshards)):
            if res is None or rc not in (0, 1):
                errors.append('%s/%s failed rc=%s: %s' % (run['harness'], vname, rc, (out or '')[-1500:]))
            if res is not None:
                for c in res['cells']:
                    c['harness'] = run['harness']
                    c['variant'] = vname
                    results.append(c)
    return results, errors


PENDING_REASON = 'check not implemented yet in this revision of /verif (work in progress, see DESIGN.md work order)'


def write_manifest():
    props = [json.loads(l) for l in open(os.path.join(VERIF, 'properties.jsonl'))]
    commits = subprocess.run(['git', '-C', REPO, 'log', '--format=%H %s'], stdout=subprocess.PIPE, text=True).stdout
    hook_commits = [l.split()[0] for l in commits.split('\n') if ' verif hooks' in l]
    m = dict(
        version=1,
        setup_cmd='python3 run.py setup',
        hooks=dict(
            guard='YACLIB_VERIF',
            enable='run.py compiles /repo/src and /repo/include itself (ninja, g++) with -DYACLIB_VERIF in the explorer '
                   'variants (mc-asan, mc-hb, ...); the hook table yaclib::verif::gHooks is filled by engine/engine.cpp; '
                   'with the table empty or the guard off the code is unchanged',
            baseline_off_cmd='cmake --build /repo/_build && ctest --test-dir /repo/_build -j8 --timeout 900',
            source_commits=list(reversed(hook_commits)), add_only=True),
        engines=[
            dict(name='vx', path='engine/engine.cpp',
                 serves_properties=sorted(k for k, v in CHECKS.items() if any(r['kind'] == 'mc' for r in v['runs'])),
                 kind_free_text='stateless, preemption-bounded, exhaustive explorer that drives YACLib\'s own FIBER '
                                'fault-injection scheduler through YACLIB_VERIF hooks (every schedule of the real code within '
                                'the bounds; crash containment by fork; replayable schedules)'),
            dict(name='seq', path='harness/',
                 serves_properties=sorted(k for k, v in CHECKS.items() if any(r['kind'] == 'seq' for r in v['runs'])),
                 kind_free_text='bounded exhaustive enumerators of operation sequences / pipeline programs run on the real '
                                'code against a reference model'),
        ],
        checks=[], notes='see DESIGN.md; known_findings.json lists recorded and fixed defects', not_applicable=[])
    for p in props:
        pid = p['id']
        if pid in CHECKS:
            c = CHECKS[pid]
            m['checks'].append(dict(
                property_id=pid,
                quick_cmd='python3 run.py check %s --tier quick' % pid,
                thorough_cmd='python3 run.py check %s --tier thorough' % pid,
                evidence_file='evidence/%s.json' % pid,
                replay_cmd_template='python3 run.py replay {path}',
                engine='vx' if any(r['kind'] == 'mc' for r in c['runs']) else 'seq',
                level_claimed=dict(category='model_checking', text=c.get('level_text', c['title']),
                                   design_ref='DESIGN.md section 3, ' + pid),
                level_note='; '.join(c.get('assumptions', [])),
                technique=c.get('technique', 'model checking'),
            ))
        else:
            m['not_applicable'].append(dict(property_id=pid, reason=NA_REASONS.get(pid, PENDING_REASON)))
    with open(os.path.join(VERIF, 'MANIFEST.json'), 'w') as f:
        json.dump(m, f, indent=1)
        f.write('\n')


NA_REASONS = {}


def replay(path):
    d = json.load(open(path))
    build([(d['harness'], d['variant'])])
    binp = os.path.join(BUILD, d['variant'], 'bin', d['harness'])
    env = dict(os.environ)
    env['ASAN_OPTIONS'] = ASAN_OPTIONS
    return subprocess.run([binp, '--replay', path], env=env).returncode


def upstream_tests(variants=('up-fiber', 'up-off'), gfilter=None):
    """Compiles upstream's unit tests (incl. coroutine and fiber tests the baseline build never compiles) by hand
    against the working tree in FIBER+CORO and OFF+CORO and runs them.  A guard for repairs, not evidence."""
    rc_all = 0
    for vname in variants:
        v = VARIANTS[vname]
        gen_config(vname, v)
        vdir = os.path.join(BUILD, vname)
        srcs = [os.path.join(REPO, 'test/test.cpp')]
        for d in ('algo', 'async', 'coro', 'exe', 'runtime', 'util') + (('fault',) if v['fault'] == 2 else ()):
            srcs += sorted(glob.glob(os.path.join(REPO, 'test/unit', d, '*.cpp')))
        srcs = [x for x in srcs if not x.endswith('dealloc_order.cpp')]
        lines = ['cxx = g++', 'rule cxx', '  command = $cxx $flags -MD -MF $out.d -c $in -o $out', '  depfile = $out.d', '  deps = gcc',
                 'rule link', '  command = $cxx $in $ldflags -o $out', '']
        objs = []
        fl = flags(vname, v, False) + ['-I' + os.path.join(REPO, 'test')]
        for src in lib_sources(v) + srcs:
            obj = os.path.join(vdir, 'up', os.path.relpath(src, REPO).replace('/', '_') + '.o')
            lines += ['build %s: cxx %s' % (ninja_escape(obj), ninja_escape(src)), '  flags = ' + ' '.join(fl), '']
            objs.append(obj)
        binp = os.path.join(vdir, 'bin', 'upstream_tests')
        lines += ['build %s: link %s' % (ninja_escape(binp), ' '.join(ninja_escape(o) for o in objs)),
                  '  ldflags = -pthread -lgtest', '']
        nf = os.path.join(vdir, 'up.ninja')
        os.makedirs(vdir, exist_ok=True)
        open(nf, 'w').write('\n'.join(lines) + '\n')
        r = subprocess.run(['ninja', '-f', nf, '-j', str(NPROC), binp], stdout=subprocess.PIPE, stderr=subprocess.STDOUT, text=True)
        if r.returncode != 0:
            print(r.stdout[-4000:])
            print('upstream-tests %s: BUILD FAILED' % vname)
            rc_all = 1
            continue
        cmd = [binp]
        if gfilter:
            cmd.append('--gtest_filter=' + gfilter)
        t0 = time.time()
        r = subprocess.run(cmd, stdout=subprocess.PIPE, stderr=subprocess.STDOUT, text=True)
        tail = [l for l in r.stdout.split('\n') if l.startswith('[  PASSED') or l.startswith('[  FAILED') or 'tests ran' in l]
        print('upstream-tests %s: rc=%d %.0fs %s' % (vname, r.returncode, time.time() - t0, ' | '.join(tail[:8])))
        if r.returncode != 0:
            rc_all = 1
            print(r.stdout[-3000:])
    return rc_all


def main():
    ap = argparse.ArgumentParser()
    sub = ap.add_subparsers(dest='cmd')
    b = sub.add_parser('build')
    b.add_argument('targets', nargs='*')
    c = sub.add_parser('check')
    c.add_argument('prop')
    c.add_argument('--tier', default=os.environ.get('VERIF_TIER', 'quick'))
    r = sub.add_parser('replay')
    r.add_argument('file')
    sub.add_parser('setup')
    sub.add_parser('manifest')
    hh = sub.add_parser('harness')
    hh.add_argument('name')
    hh.add_argument('--variant', default='mc-asan')
    hh.add_argument('--tier', default='quick')
    hh.add_argument('--cells', default=None)
    hh.add_argument('--deadline', type=float, default=600.0)
    x = sub.add_parser('crosscheck')
    x.add_argument('harness', nargs='*')
    x.add_argument('--P', type=int, default=2)
    x.add_argument('--cells', type=int, default=16)
    x.add_argument('--deadline', type=float, default=600.0)
    u = sub.add_parser('upstream-tests')
    u.add_argument('--filter', default=None)
    u.add_argument('--variant', default=None)
    a = ap.parse_args()
    if a.cmd == 'build':
        tg = []
        for t in a.targets:
            h, v = t.split(':')
            tg.append((h, v))
        t0 = time.time()
        bins = build(tg, quiet=False)
        print('built', bins, 'in %.1fs' % (time.time() - t0))
    elif a.cmd == 'check':
        sys.exit(check(a.prop, a.tier))
    elif a.cmd == 'replay':
        sys.exit(replay(a.file))
    elif a.cmd == 'manifest':
        write_manifest()
    elif a.cmd == 'harness':
        sys.exit(run_harness(a.name, a.variant, a.tier, a.cells, a.deadline))
    elif a.cmd == 'crosscheck':
        sys.exit(crosscheck(a.harness, a.P, a.cells, deadline=a.deadline))
    elif a.cmd == 'upstream-tests':
        sys.exit(upstream_tests((a.variant,) if a.variant else ('up-fiber', 'up-off'), a.filter))
    elif a.cmd == 'setup':
        tg = sorted({(r['harness'], r['variant']) for spec in CHECKS.values() for r in spec['runs']})
        t0 = time.time()
        build(tg)
        print('setup: built %d binaries in %.1fs' % (len(tg), time.time() - t0))
    else:
        ap.print_help()


if __name__ == '__main__':
    main()
