#!/bin/bash
# usage: tools_try_seed.sh <seed-dir> <property> [tier]   -- applies the seeded patch to /repo, runs the check, reverts
set -u
d=$1; p=$2; t=${3:-quick}
cd /repo && git status --short | grep -q . && { echo "/repo not clean"; exit 2; }
git -C /repo apply $d/patch.diff || { echo "patch does not apply"; exit 2; }
cd /verif && python3 run.py check $p --tier $t > /tmp/seed_try.log 2>&1; rc=$?
git -C /repo checkout -- .
grep -c "^VIOLATION" /tmp/seed_try.log | sed 's/^/violation lines: /'
grep -A1 "^VIOLATION" /tmp/seed_try.log | grep -v "^--" | head -6
tail -1 /tmp/seed_try.log
echo "rc=$rc"
