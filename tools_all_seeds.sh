#!/bin/bash
# Applies every seeded change in /verif/seeded to /repo in turn (git apply / git checkout), runs the quick check of
# the property it breaks, and records whether the check reported it.  Leaves /repo clean and the evidence files of
# the clean tree untouched (they are saved and restored).
cd /verif
out=/verif/seeded/RESULTS${2:+-$2}.txt
tmp=$(mktemp -d /verif/build/work/seeds.XXXX)
cp -r /verif/evidence $tmp/evidence; cp -r /verif/replays $tmp/replays 2>/dev/null
: > $out.new
for d in /verif/seeded/${1:-C}*/; do
  id=$(basename $d); p=${id%%-*}
  [ -n "$(git -C /repo status --short)" ] && { echo "/repo not clean"; exit 2; }
  git -C /repo apply $d/patch.diff || { echo "$id patch does not apply" >> $out.new; continue; }
  s=$(date +%s)
  python3 run.py check $p --tier quick > $tmp/$id.log 2>&1; rc=$?
  git -C /repo checkout -- .
  nv=$(grep -c '^VIOLATION' $tmp/$id.log)
  first=$(grep -A1 '^VIOLATION' $tmp/$id.log | sed -n 2p | cut -c1-220)
  echo "$id property=$p rc=$rc violation_lines=$nv wall=$(( $(date +%s) - s ))s :: $first" | tee -a $out.new
done
mv $out.new $out
rm -rf /verif/evidence /verif/replays; mv $tmp/evidence /verif/evidence; [ -d $tmp/replays ] && mv $tmp/replays /verif/replays
rm -rf $tmp
# rebuild the binaries of the clean tree so that later checks start warm
python3 run.py setup > /dev/null 2>&1
