#!/usr/bin/env python3
"""Rewrites the measured table in DESIGN.md (between the BEGIN/END measured markers) from evidence/*.json."""
import json, os, re, collections
V = os.path.dirname(os.path.abspath(__file__))
rows = []
for i in range(1, 21):
    pid = 'C%02d' % i
    e = json.load(open(os.path.join(V, 'evidence', pid + '.json')))
    c = e['coverage']
    runs = []
    fmt = lambda x: ('∞' if x >= 99 else str(x))
    for d in c.get('runs', []):
        ps = [(b['P'], b['S'], b['T']) for b in d['bounds']]
        k = '%s/%s' % (d['harness'], d['variant'])
        if ps:
            lo, hi = min(p[0] for p in ps), max(p[0] for p in ps)
            b = 'P≤%s' % fmt(hi) if lo == hi else 'P≤%s…%s' % (fmt(lo), fmt(hi))
            if max(p[1] for p in ps):
                b += ', S≤%d' % max(p[1] for p in ps)
            if max(p[2] for p in ps):
                b += ', T≤%d' % max(p[2] for p in ps)
            runs.append('%s: %d cells, %s, %s executions' % (k, d['cells'], b, format(d['executions'], ',')))
        else:
            runs.append('%s: %d shards, %s programs' % (k, d['cells'], format(d['executions'], ',')))
    rows.append('| %s | %s | %d | %s | %s | %s | %.0f s |' % (
        pid, e['tier'], c['cells_total'], format(c['traces_validated_against_impl'], ','), format(c['states'], ','),
        'yes' if c['exhaustive'] else 'no (%d capped)' % c['cells_capped'], e['wall_s']))
    rows.append('| | ' + '; '.join(runs) + ' | | | | | |')
# thorough tier: the last end-to-end run of every thorough command, kept in thorough_runs/
trows = []
for i in range(1, 21):
    pid = 'C%02d' % i
    fn = os.path.join(V, 'thorough_runs', pid + '.json')
    if not os.path.exists(fn):
        continue
    e = json.load(open(fn))
    c = e['coverage']
    fmt = lambda x: ('∞' if x >= 99 else str(x))
    bs = []
    for d in c.get('runs', []):
        ps = [(b['P'], b['S'], b['T']) for b in d['bounds']]
        if ps:
            lo, hi = min(p[0] for p in ps), max(p[0] for p in ps)
            bs.append('%s/%s P≤%s' % (d['harness'], d['variant'].replace('mc-', ''), fmt(hi) if lo == hi else fmt(lo) + '…' + fmt(hi)))
    trows.append('| %s | %d | %s | %s | %s | %.0f s | %s |' % (
        pid, c['cells_total'], format(c['traces_validated_against_impl'], ','), format(c['states'], ','),
        'yes' if c['exhaustive'] else 'no (%d capped)' % c['cells_capped'], e['wall_s'], '; '.join(bs) if bs else 'enumerators only'))
tab = ['*Measured, last run of each check on the committed tree (16 cores):*', '',
       '| id | tier | cells | executions | states (choice-tree nodes) | exhaustive within bounds | wall |',
       '|---|---|---|---|---|---|---|'] + rows + ['', '*Thorough tier, last end-to-end run of every thorough command (`tools_all.sh thorough`, results kept in `thorough_runs/`; the machine was shared with other jobs, so wall times are upper bounds):*', '',
       '| id | cells | executions | states | exhaustive within bounds | wall | preemption bounds per explorer run |', '|---|---|---|---|---|---|---|'] + trows
p = os.path.join(V, 'DESIGN.md')
s = open(p).read()
s = re.sub(r'<!-- BEGIN measured -->.*?<!-- END measured -->', '<!-- BEGIN measured -->\n' + '\n'.join(tab) + '\n<!-- END measured -->', s, flags=re.S)
open(p, 'w').write(s)
print('\n'.join(tab))
