#!/usr/bin/env python3
"""tools_calibrate.py <variant> <harness> <P list> [--tier T] [--cells regex] [--deadline S] [--S n] [--T n]
Runs every cell at each P (CellBounds override disabled via env VX_FORCE_BOUNDS) and prints executions / wall."""
import sys, os, subprocess, json, re, concurrent.futures
v, h = sys.argv[1], sys.argv[2]
Ps = [int(x) for x in sys.argv[3].split(',')]
args = sys.argv[4:]
def opt(name, d):
    return args[args.index(name)+1] if name in args else d
tier = opt('--tier', 'quick'); rx = opt('--cells', ''); dl = opt('--deadline', '60'); S = opt('--S', '1'); T = opt('--T', '0')
b = '/verif/build/%s/bin/%s' % (v, h)
env = dict(os.environ, ASAN_OPTIONS='detect_leaks=0:exitcode=87:abort_on_error=0:detect_stack_use_after_return=0', VX_FORCE_BOUNDS='1')
cells = [c for c in subprocess.run([b, '--list-cells', '--tier', tier], stdout=subprocess.PIPE, text=True, env=env).stdout.split('\n') if c and re.search(rx, c)]
def run(job):
    c, P = job
    out = '/tmp/cal_%d_%d.json' % (os.getpid(), abs(hash((c, P))))
    subprocess.run([b, '--cell', c, '--tier', tier, '--P', str(P), '--S', S, '--T', T, '--deadline', dl, '--out', out], stdout=subprocess.DEVNULL, stderr=subprocess.DEVNULL, env=env)
    try:
        d = json.load(open(out))['cells'][0]; os.unlink(out)
    except Exception as e:
        return c, P, None
    return c, P, d
with concurrent.futures.ThreadPoolExecutor(16) as ex:
    res = list(ex.map(run, [(c, P) for c in cells for P in Ps]))
for c in cells:
    line = c.ljust(60)
    for cc, P, d in res:
        if cc == c:
            if d is None: line += ' P%d:ERR' % P
            else: line += ' P%d:%s%d/%.0fs%s' % (P, '' if d['exhaustive'] else '>', d['executions'], d['wall_s'], ('!' + str(len(d['violations']))) if d['violations'] else '')
    print(line)
