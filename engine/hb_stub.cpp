#include "hb.hpp"

namespace vx::hb {

bool Enabled() {
  return false;
}
void ResetExecution() {
}
void EndExecution() {
}
void OnSwitch(int) {
}
void OnFiberStack(const void*, std::size_t) {
}
void OnSpawn(int, int) {
}
void OnJoin(int, int) {
}
void OnEvent(int, int, const void*, int) {
}
void EnterPrim() {
}
void LeavePrim() {
}
void OnRawAlloc(const void*, std::size_t) {
}
void OnAlloc(const void*, std::size_t) {
}
void OnFree(const void*) {
}
unsigned long long Accesses() {
  return 0;
}
unsigned long long SyncOps() {
  return 0;
}

}  // namespace vx::hb
