// Support for the sequential enumerators (no explorer engine linked): the subset of the vx API the
// oracle helpers need (failure recording, tracked-object ledger) plus an allocation counter.
#include "oracle.hpp"
#include "vx.hpp"

#include <cstddef>
#include <cstdlib>
#include <new>

namespace vx {
namespace {

bool gFailed = false;
char gOracle[64];
char gText[700];
int gExtra = 0;

constexpr std::size_t kCap = 1u << 10;
struct Ent {
  const void* p;
  int id;
  int state;
};
Ent gLedger[kCap];
int gAlive = 0;
bool gDirty = false;

std::size_t H(const void* p) {
  auto x = reinterpret_cast<std::uintptr_t>(p);
  x ^= x >> 33;
  x *= 0xff51afd7ed558ccdULL;
  x ^= x >> 29;
  return x & (kCap - 1);
}
Ent* Find(const void* p, bool insert) {
  std::size_t i = H(p);
  Ent* tomb = nullptr;
  for (std::size_t k = 0; k < kCap; ++k) {
    Ent& e = gLedger[i];
    if (e.p == p && e.state != 0) {
      return &e;
    }
    if (e.p == nullptr) {
      return insert ? (tomb != nullptr ? tomb : &e) : nullptr;
    }
    if (e.state == 0 && tomb == nullptr) {
      tomb = &e;
    }
    i = (i + 1) & (kCap - 1);
  }
  return tomb;
}

}  // namespace

std::uint64_t gAllocCount = 0;
std::int64_t gAllocLive = 0;
int gAllocPause = 0;

void Fail(const char* oracle, const char* fmt, ...) {
  ++gAllocPause;
  if (gFailed) {
    ++gExtra;
    --gAllocPause;
    return;
  }
  gFailed = true;
  std::snprintf(gOracle, sizeof(gOracle), "%s", oracle);
  va_list ap;
  va_start(ap, fmt);
  std::vsnprintf(gText, sizeof(gText), fmt, ap);
  va_end(ap);
  --gAllocPause;
}
bool SeqFailed() {
  return gFailed;
}
const char* SeqOracle() {
  return gOracle;
}
const char* SeqText() {
  return gText;
}
void SeqReset() {
  gFailed = false;
  gExtra = 0;
  if (gDirty) {
    std::memset(gLedger, 0, sizeof(gLedger));
    gDirty = false;
  }
  gAlive = 0;
}

void Point() {
}
void Touch() {
}
std::uint64_t Now() {
  return 0;
}
std::uint64_t VirtualNow() {
  return 0;
}
int Self() {
  return 0;
}
void Mark(const char*, ...) {
}
void Outcome(const char*, ...) {
}
bool Tracing() {
  return false;
}
int TimersFired() {
  return 0;
}
void DeadRegion(const void*, std::size_t, const char*) {
}
void ClearDeadRegions() {
}
void SharedAccess(const void*, bool, std::uint64_t) {
}
void Fold(std::uint64_t) {
}
std::uint64_t AllocCount() {
  return gAllocCount;
}
std::int64_t AllocLive() {
  return gAllocLive;
}
const Bounds& GetBounds() {
  static Bounds b;
  return b;
}

void LedgerCtor(const void* p, int id) {
  Ent* e = Find(p, false);
  if (e != nullptr) {
    Fail("ledger:construct-over-live", "object %d constructed over live tracked object %d", id, e->id);
    e->id = id;
    e->state = 1;
    return;
  }
  e = Find(p, true);
  if (e == nullptr) {
    std::fprintf(stderr, "MACHINERY-ERROR ledger full\n");
    std::abort();
  }
  e->p = p;
  e->id = id;
  e->state = 1;
  ++gAlive;
  gDirty = true;
}
void LedgerMovedFrom(const void* p) {
  Ent* e = Find(p, false);
  if (e != nullptr) {
    e->state = 2;
  }
}
void LedgerDtor(const void* p, int id) {
  Ent* e = Find(p, false);
  if (e == nullptr) {
    Fail("ledger:double-destroy", "tracked object %d destroyed but not alive (double destruction)", id);
    return;
  }
  e->state = 0;
  --gAlive;
}
int LedgerCheck(const void* p) {
  Ent* e = Find(p, false);
  if (e == nullptr) {
    return 1;
  }
  return e->state == 2 ? 2 : 0;
}
int LedgerAlive() {
  return gAlive;
}

}  // namespace vx

namespace {
inline void* A(std::size_t n, std::size_t align) {
  void* p = nullptr;
  if (align <= alignof(std::max_align_t)) {
    p = std::malloc(n != 0 ? n : 1);
  } else if (posix_memalign(&p, align, n != 0 ? n : 1) != 0) {
    p = nullptr;
  }
  if (p != nullptr) {
    if (vx::gAllocPause == 0) {
      ++vx::gAllocCount;
    }
    ++vx::gAllocLive;
  }
  return p;
}
inline void F(void* p) {
  if (p != nullptr) {
    --vx::gAllocLive;
    std::free(p);
  }
}
}  // namespace

void* operator new(std::size_t n) {
  void* p = A(n, 0);
  if (p == nullptr) {
    throw std::bad_alloc{};
  }
  return p;
}
void* operator new[](std::size_t n) {
  void* p = A(n, 0);
  if (p == nullptr) {
    throw std::bad_alloc{};
  }
  return p;
}
void* operator new(std::size_t n, const std::nothrow_t&) noexcept {
  return A(n, 0);
}
void* operator new[](std::size_t n, const std::nothrow_t&) noexcept {
  return A(n, 0);
}
void* operator new(std::size_t n, std::align_val_t a) {
  void* p = A(n, static_cast<std::size_t>(a));
  if (p == nullptr) {
    throw std::bad_alloc{};
  }
  return p;
}
void* operator new[](std::size_t n, std::align_val_t a) {
  void* p = A(n, static_cast<std::size_t>(a));
  if (p == nullptr) {
    throw std::bad_alloc{};
  }
  return p;
}
void operator delete(void* p) noexcept {
  F(p);
}
void operator delete[](void* p) noexcept {
  F(p);
}
void operator delete(void* p, std::size_t) noexcept {
  F(p);
}
void operator delete[](void* p, std::size_t) noexcept {
  F(p);
}
void operator delete(void* p, std::align_val_t) noexcept {
  F(p);
}
void operator delete[](void* p, std::align_val_t) noexcept {
  F(p);
}
void operator delete(void* p, std::size_t, std::align_val_t) noexcept {
  F(p);
}
void operator delete[](void* p, std::size_t, std::align_val_t) noexcept {
  F(p);
}
void operator delete(void* p, const std::nothrow_t&) noexcept {
  F(p);
}
void operator delete[](void* p, const std::nothrow_t&) noexcept {
  F(p);
}
