// vx — explorer API seen by harnesses.
//
// One harness binary = engine.cpp + oracle helpers + one harness TU that defines the functions
// declared in `namespace vxh` below.  The engine drives YACLib's FIBER fault-injection scheduler
// through the YACLIB_VERIF hooks and enumerates every schedule of `Body(cell)` within the bounds.
#pragma once

#include <atomic>
#include <cstdarg>
#include <cstdint>
#include <cstdio>
#include <cstring>
#include <functional>
#include <map>
#include <string>
#include <vector>

namespace vx {

// A cell is one parameter tuple of a harness, written "k=v,k=v".
struct Cell {
  std::string id;
  std::map<std::string, std::string> kv;

  explicit Cell(std::string s = "") : id{std::move(s)} {
    std::size_t i = 0;
    while (i < id.size()) {
      auto j = id.find(',', i);
      if (j == std::string::npos) {
        j = id.size();
      }
      auto e = id.find('=', i);
      if (e != std::string::npos && e < j) {
        kv[id.substr(i, e - i)] = id.substr(e + 1, j - e - 1);
      }
      i = j + 1;
    }
  }
  const std::string& Str(const std::string& k) const {
    static const std::string empty;
    auto it = kv.find(k);
    return it == kv.end() ? empty : it->second;
  }
  bool Is(const std::string& k, const char* v) const {
    return Str(k) == v;
  }
  int Int(const std::string& k, int def = 0) const {
    auto it = kv.find(k);
    return it == kv.end() ? def : std::atoi(it->second.c_str());
  }
};

// ---- oracle reporting (callable from any fiber) -------------------------------------------------
// Records a violation of `oracle` for the execution in flight (first one wins as its signature).
void Fail(const char* oracle, const char* fmt, ...) __attribute__((format(printf, 2, 3)));
#define VX_EXPECT(cond, oracle, ...)                                                                                   \
  do {                                                                                                                 \
    if (!(cond)) {                                                                                                     \
      ::vx::Fail(oracle, __VA_ARGS__);                                                                                 \
    }                                                                                                                  \
  } while (false)

// Explicit decision point (inside job bodies / critical sections).
void Point();
// Marks the running fiber as having done something visible (without yielding).
void Touch();
// Monotone counter of visible events of this execution: the oracle clock.
std::uint64_t Now();
// Virtual time of the fiber scheduler in ns.
std::uint64_t VirtualNow();
// Relative id of the running fiber (root = 0), -1 outside fibers.
int Self();
// Client-visible marker, part of the trace and of the outcome string when `in_outcome`.
void Mark(const char* fmt, ...) __attribute__((format(printf, 1, 2)));
// Appends to the outcome string of this execution (distinct outcomes are counted).
void Outcome(const char* fmt, ...) __attribute__((format(printf, 1, 2)));
// True while running a replay with tracing.
bool Tracing();
// Number of timer choices taken so far in this execution.
int TimersFired();
// Declares [p, p+n) dead: any later atomic/mutex event inside it is a violation of `oracle`.
void DeadRegion(const void* p, std::size_t n, const char* oracle);
void ClearDeadRegions();
// Allocation ledger: number of operator new calls since the execution started (engine excluded).
std::uint64_t AllocCount();
// Live blocks allocated during this execution.
std::int64_t AllocLive();

// Folds a value an oracle depends on into the state fingerprint of the execution (see engine.cpp,
// partial-order fingerprint): states that differ in it are never merged by the state cache.
void Fold(std::uint64_t value);
void SharedAccess(const void* obj, bool writes, std::uint64_t value);

// Cross-fiber observation variable of a harness.  Not a scheduling point, never a data race (relaxed
// std::atomic), and every access is folded into the state fingerprint.
class Shared {
 public:
  explicit Shared(int id, int v = 0) : _id{id}, _v{v} {
  }
  int Get() const {
    const int v = _v.load(std::memory_order_relaxed);
    SharedAccess(this, false, static_cast<unsigned>(v));
    return v;
  }
  void Set(int v) {
    _v.store(v, std::memory_order_relaxed);
    SharedAccess(this, true, static_cast<unsigned>(v));
  }
  int Add(int d) {
    const int v = _v.fetch_add(d, std::memory_order_relaxed) + d;
    SharedAccess(this, true, static_cast<unsigned>(v));
    return v;
  }

 private:
  int _id;
  std::atomic<int> _v;
};

// ---- bounds requested on the command line, visible to harnesses that adapt ----------------------
struct Bounds {
  int P = 2, S = 0, T = 0;
  bool all_points = false;   // every injection point is a decision (C18)
  bool rand_choice = false;  // GetRandNumber(max>1) is a decision among {0,1} (C18 coin)
};
const Bounds& GetBounds();

}  // namespace vx

// ---- what a harness TU defines -------------------------------------------------------------------
namespace vxh {
extern const char* const kName;      // harness name
extern const char* const kProperty;  // default property id for violations
// Parameter tuples, simplest first.  tier: 0 = quick, 1 = thorough.
std::vector<std::string> Cells(int tier);
// Runs on the root fiber.  Must join every thread it starts and destroy every library object.
void Body(const vx::Cell& cell);
// Optional per-cell bounds override (return false to keep the command line's).
bool CellBounds(const vx::Cell& cell, int tier, vx::Bounds& b);
}  // namespace vxh
