// Happens-before race monitor: the private runtime behind g++'s -fsanitize=thread instrumentation
// (no libtsan is linked).  Library proper and harness bodies are compiled with the instrumentation;
// the fault layer and the engine are not.  Synchronisation is NOT taken from how the cooperative
// fiber scheduler happened to interleave things (everything is sequentially consistent there) but
// from the memory orders written in the source, reported through the YACLIB_VERIF event hook:
//   * release store / acquire load / RMW continuing a release sequence / relaxed carrying nothing,
//   * acquire and release fences (per-fiber pending clocks), seq_cst treated as acq_rel,
//   * mutex unlock -> lock, thread spawn -> start, exit -> join.
// Every instrumented plain access is checked, tsan-style (4 shadow slots per 8-byte word, byte
// ranges inside the word), against the accesses of other fibers that are not ordered before it.
// operator delete counts as a write to the whole block.
#include "hb.hpp"

#include "vx.hpp"

#include <cstdint>
#include <cstdio>
#include <cstdlib>
#include <cstring>

namespace vx::hb {
namespace {

constexpr int kF = 24;  // fibers per execution
using Clock = std::uint32_t;
struct VC {
  Clock c[kF];
  void Join(const VC& o) {
    for (int i = 0; i < kF; ++i) {
      if (o.c[i] > c[i]) {
        c[i] = o.c[i];
      }
    }
  }
  void Clear() {
    std::memset(c, 0, sizeof(c));
  }
};

struct Slot {
  Clock clk;
  std::uint8_t fiber;
  std::uint8_t off;
  std::uint8_t size;
  std::uint8_t write;  // 0 empty-able read, 1 write; clk == 0 means empty
  const void* pc;
};
struct Word {
  std::uintptr_t addr;  // 8-aligned, 0 = empty
  Slot s[4];
  std::uint8_t rr;
};

constexpr std::size_t kWords = 1u << 13;
Word gWords[kWords];
std::uint32_t gUsed[kWords];
std::uint32_t gNUsed = 0;

struct SyncObj {
  const void* addr;
  VC vc;
};
constexpr std::size_t kSync = 1u << 10;
SyncObj gSync[kSync];
std::uint32_t gSyncUsed[kSync];
std::uint32_t gNSync = 0;

struct Block {
  const void* p;
  std::size_t n;
};
constexpr std::size_t kBlocks = 1u << 11;
Block gBlocks[kBlocks];
bool gBlocksDirty = false;

VC gC[kF];
VC gRelFence[kF];
VC gAcqPending[kF];
bool gHasRelFence[kF];
VC gSpawnClock[kF];
bool gStarted[kF];
struct Range {
  std::uintptr_t lo, hi;
};
int gCur = -1;
int gIgnore = 0;
bool gActive = false;
unsigned long long gAccesses = 0;
unsigned long long gSyncOps = 0;
unsigned long long gRaces = 0;
unsigned long long gDropped = 0;

inline std::size_t H(std::uintptr_t x) {
  x ^= x >> 31;
  x *= 0x9e3779b97f4a7c15ULL;
  x ^= x >> 29;
  return x;
}

Word* FindWord(std::uintptr_t a, bool insert) {
  std::size_t i = H(a) & (kWords - 1);
  for (std::size_t k = 0; k < 64; ++k) {
    Word& w = gWords[i];
    if (w.addr == a) {
      return &w;
    }
    if (w.addr == 0) {
      if (!insert) {
        return nullptr;
      }
      if (gNUsed >= kWords / 2) {
        return nullptr;
      }
      w.addr = a;
      gUsed[gNUsed++] = static_cast<std::uint32_t>(i);
      return &w;
    }
    i = (i + 1) & (kWords - 1);
  }
  ++gDropped;
  return nullptr;
}

SyncObj* FindSync(const void* p) {
  std::size_t i = H(reinterpret_cast<std::uintptr_t>(p)) & (kSync - 1);
  for (std::size_t k = 0; k < kSync; ++k) {
    SyncObj& s = gSync[i];
    if (s.addr == p) {
      return &s;
    }
    if (s.addr == nullptr) {
      if (gNSync >= kSync / 2) {
        return nullptr;
      }
      s.addr = p;
      s.vc.Clear();
      gSyncUsed[gNSync++] = static_cast<std::uint32_t>(i);
      return &s;
    }
    i = (i + 1) & (kSync - 1);
  }
  return nullptr;
}

void ClearRange(std::uintptr_t lo, std::uintptr_t hi) {
  // forget the history of [lo, hi): fresh memory
  if (gNUsed == 0) {
    return;
  }
  const std::uintptr_t wlo = lo & ~std::uintptr_t{7};
  if (hi - lo > 4096 * 4) {
    // large range (a stack): scan the used list instead of every word
    for (std::uint32_t k = 0; k < gNUsed; ++k) {
      Word& w = gWords[gUsed[k]];
      if (w.addr >= wlo && w.addr < hi) {
        std::memset(w.s, 0, sizeof(w.s));
      }
    }
    return;
  }
  for (std::uintptr_t a = wlo; a < hi; a += 8) {
    Word* w = FindWord(a, false);
    if (w == nullptr) {
      continue;
    }
    for (Slot& s : w->s) {
      if (s.clk == 0) {
        continue;
      }
      const std::uintptr_t b = a + s.off;
      const std::uintptr_t e = b + s.size;
      if (b >= lo && e <= hi) {
        s.clk = 0;
      } else if (b < hi && e > lo) {
        s.clk = 0;  // partial overlap: drop as well (allocation boundaries are at least 8-aligned in practice)
      }
    }
  }
}

void ReportRace(const Slot& old, std::uintptr_t addr, int size, bool write, const void* pc) {
  ++gRaces;
  vx::Fail("hb:race",
           "data race on %p: %s of %d byte(s) by fiber %d at pc %p is not ordered after the %s of %d byte(s) by fiber %d "
           "at pc %p (happens-before from the declared memory orders)",
           reinterpret_cast<void*>(addr), write ? "write" : "read", size, gCur, pc, old.write ? "write" : "read", old.size,
           old.fiber, old.pc);
}

void AccessWord(std::uintptr_t word, int off, int size, bool write, const void* pc) {
  Word* w = FindWord(word, true);
  if (w == nullptr) {
    return;
  }
  const VC& me = gC[gCur];
  int store_at = -1;
  for (int i = 0; i < 4; ++i) {
    Slot& s = w->s[i];
    if (s.clk == 0) {
      if (store_at < 0) {
        store_at = i;
      }
      continue;
    }
    const bool overlap = s.off < off + size && off < s.off + s.size;
    if (s.fiber == gCur) {
      if (s.off == off && s.size == size && (s.write == (write ? 1 : 0) || write)) {
        store_at = i;  // same fiber, same bytes: replace (a write supersedes an own read)
      }
      continue;
    }
    if (!overlap) {
      continue;
    }
    const bool ordered = s.clk <= me.c[s.fiber];
    if (!ordered && (s.write != 0 || write)) {
      ReportRace(s, word + off, size, write, pc);
    }
    if (ordered && store_at < 0 && (write || s.write == 0)) {
      store_at = i;  // an access that happens-before this one can be forgotten
    }
  }
  if (store_at < 0) {
    store_at = w->rr++ & 3;
  }
  Slot& s = w->s[store_at];
  s.clk = me.c[gCur];
  s.fiber = static_cast<std::uint8_t>(gCur);
  s.off = static_cast<std::uint8_t>(off);
  s.size = static_cast<std::uint8_t>(size);
  s.write = write ? 1 : 0;
  s.pc = pc;
}

inline void Access(const void* p, std::size_t size, bool write, const void* pc) {
  if (!gActive || gIgnore != 0 || gCur < 0) {
    return;
  }
  ++gAccesses;
  std::uintptr_t a = reinterpret_cast<std::uintptr_t>(p);
  while (size != 0) {
    const std::uintptr_t word = a & ~std::uintptr_t{7};
    const int off = static_cast<int>(a - word);
    const int n = static_cast<int>(size < static_cast<std::size_t>(8 - off) ? size : static_cast<std::size_t>(8 - off));
    AccessWord(word, off, n, write, pc);
    a += n;
    size -= n;
  }
}

void RangeAccess(const void* p, std::size_t size, bool write, const void* pc) {
  if (size > 4096) {
    size = 4096;
  }
  Access(p, size, write, pc);
}

bool IsAcquire(int o) {
  return o == __ATOMIC_ACQUIRE || o == __ATOMIC_ACQ_REL || o == __ATOMIC_SEQ_CST || o == __ATOMIC_CONSUME;
}
bool IsRelease(int o) {
  return o == __ATOMIC_RELEASE || o == __ATOMIC_ACQ_REL || o == __ATOMIC_SEQ_CST;
}

void Tick(int f) {
  ++gC[f].c[f];
}

void AtomicLoad(int f, const void* obj, int order) {
  SyncObj* s = FindSync(obj);
  if (s == nullptr) {
    return;
  }
  if (IsAcquire(order)) {
    gC[f].Join(s->vc);
  } else {
    gAcqPending[f].Join(s->vc);
  }
}
void AtomicStore(int f, const void* obj, int order) {
  SyncObj* s = FindSync(obj);
  if (s == nullptr) {
    return;
  }
  if (IsRelease(order)) {
    s->vc = gC[f];
    Tick(f);
  } else if (gHasRelFence[f]) {
    s->vc = gRelFence[f];
  } else {
    s->vc.Clear();  // a relaxed store heads no release sequence and breaks the previous one
  }
}
void AtomicRmw(int f, const void* obj, int order) {
  SyncObj* s = FindSync(obj);
  if (s == nullptr) {
    return;
  }
  if (IsAcquire(order)) {
    gC[f].Join(s->vc);
  } else {
    gAcqPending[f].Join(s->vc);
  }
  // an RMW continues the release sequence whatever its order
  if (IsRelease(order)) {
    s->vc.Join(gC[f]);
    Tick(f);
  } else if (gHasRelFence[f]) {
    s->vc.Join(gRelFence[f]);
  }
}
void Fence(int f, int order) {
  if (IsAcquire(order)) {
    gC[f].Join(gAcqPending[f]);
  }
  if (IsRelease(order)) {
    gRelFence[f] = gC[f];
    gHasRelFence[f] = true;
    Tick(f);
  }
}

Block* FindBlock(const void* p, bool insert) {
  std::size_t i = H(reinterpret_cast<std::uintptr_t>(p)) & (kBlocks - 1);
  Block* tomb = nullptr;
  for (std::size_t k = 0; k < kBlocks; ++k) {
    Block& b = gBlocks[i];
    if (b.p == p && b.n != 0) {
      return &b;
    }
    if (b.p == nullptr) {
      return insert ? (tomb != nullptr ? tomb : &b) : nullptr;
    }
    if (b.n == 0 && tomb == nullptr) {
      tomb = &b;
    }
    i = (i + 1) & (kBlocks - 1);
  }
  return tomb;
}

}  // namespace

bool Enabled() {
  return true;
}

void ResetExecution() {
  for (std::uint32_t k = 0; k < gNUsed; ++k) {
    Word& w = gWords[gUsed[k]];
    std::memset(&w, 0, sizeof(w));
  }
  gNUsed = 0;
  for (std::uint32_t k = 0; k < gNSync; ++k) {
    gSync[gSyncUsed[k]].addr = nullptr;
  }
  gNSync = 0;
  for (int i = 0; i < kF; ++i) {
    gC[i].Clear();
    gC[i].c[i] = 1;
    gRelFence[i].Clear();
    gAcqPending[i].Clear();
    gSpawnClock[i].Clear();
    gHasRelFence[i] = false;
    gStarted[i] = false;
  }
  if (gBlocksDirty) {
    std::memset(gBlocks, 0, sizeof(gBlocks));
    gBlocksDirty = false;
  }
  gCur = -1;
  gIgnore = 0;
  gActive = true;
}

void EndExecution() {
  gActive = false;
  gCur = -1;
}

void OnSwitch(int fiber) {
  if (fiber < 0 || fiber >= kF) {
    gCur = -1;
    return;
  }
  gCur = fiber;
  if (!gStarted[fiber]) {
    gStarted[fiber] = true;
    gC[fiber].Join(gSpawnClock[fiber]);
    gC[fiber].c[fiber] = 1;
  }
}

void OnFiberStack(const void* lo, std::size_t n) {
  // a fresh fiber starts on a possibly recycled stack: forget what was there
  ClearRange(reinterpret_cast<std::uintptr_t>(lo), reinterpret_cast<std::uintptr_t>(lo) + n);
}

void OnSpawn(int parent, int child) {
  if (child < 0 || child >= kF) {
    return;
  }
  ++gSyncOps;
  if (parent >= 0 && parent < kF) {
    gSpawnClock[child] = gC[parent];
    Tick(parent);
  } else {
    gSpawnClock[child].Clear();
  }
  gStarted[child] = false;
}

void OnJoin(int joiner, int child) {
  if (joiner < 0 || joiner >= kF || child < 0 || child >= kF) {
    return;
  }
  ++gSyncOps;
  gC[joiner].Join(gC[child]);
}

void OnEvent(int f, int kind, const void* obj, int order) {
  if (!gActive || f < 0 || f >= kF) {
    return;
  }
  ++gSyncOps;
  switch (kind) {
    case 0:  // load
    case 4:  // failed CAS = load with the failure order
      AtomicLoad(f, obj, order);
      break;
    case 1:
      AtomicStore(f, obj, order);
      break;
    case 2:
    case 3:
      AtomicRmw(f, obj, order);
      break;
    case 5:
      Fence(f, order);
      break;
    case 6: {  // lock
      SyncObj* s = FindSync(obj);
      if (s != nullptr) {
        gC[f].Join(s->vc);
      }
    } break;
    case 7: {  // unlock
      SyncObj* s = FindSync(obj);
      if (s != nullptr) {
        s->vc = gC[f];
        Tick(f);
      }
    } break;
    default:
      break;
  }
}

void EnterPrim() {
  ++gIgnore;
}
void LeavePrim() {
  --gIgnore;
}

void OnAlloc(const void* p, std::size_t n) {
  if (!gActive) {
    return;
  }
  Block* b = FindBlock(p, true);
  if (b != nullptr) {
    b->p = p;
    b->n = n != 0 ? n : 1;
    gBlocksDirty = true;
  }
  ClearRange(reinterpret_cast<std::uintptr_t>(p), reinterpret_cast<std::uintptr_t>(p) + n);
}

void OnRawAlloc(const void* p, std::size_t n) {
  if (gActive) {
    ClearRange(reinterpret_cast<std::uintptr_t>(p), reinterpret_cast<std::uintptr_t>(p) + n);
  }
}

void OnFree(const void* p) {
  if (!gActive) {
    return;
  }
  Block* b = FindBlock(p, false);
  if (b == nullptr) {
    return;
  }
  const std::size_t n = b->n;
  b->n = 0;
  if (gCur >= 0 && gIgnore == 0) {
    // destruction must come after every other access: the free is a write to the whole block
    std::size_t m = n < 512 ? n : 512;
    Access(p, m, true, __builtin_return_address(0));
  }
  ClearRange(reinterpret_cast<std::uintptr_t>(p), reinterpret_cast<std::uintptr_t>(p) + n);
}

unsigned long long Accesses() {
  return gAccesses;
}
unsigned long long SyncOps() {
  return gSyncOps;
}

}  // namespace vx::hb

// ---------------------------------------------------------------------------------------------------
// The __tsan_* interface gcc's instrumentation calls
// ---------------------------------------------------------------------------------------------------
#define PC __builtin_return_address(0)
using vx::hb::Access;
using vx::hb::RangeAccess;
extern "C" {
void __tsan_init() {
}
void __tsan_func_entry(void*) {
}
void __tsan_func_exit() {
}
void __tsan_read1(void* p) {
  Access(p, 1, false, PC);
}
void __tsan_read2(void* p) {
  Access(p, 2, false, PC);
}
void __tsan_read4(void* p) {
  Access(p, 4, false, PC);
}
void __tsan_read8(void* p) {
  Access(p, 8, false, PC);
}
void __tsan_read16(void* p) {
  Access(p, 16, false, PC);
}
void __tsan_write1(void* p) {
  Access(p, 1, true, PC);
}
void __tsan_write2(void* p) {
  Access(p, 2, true, PC);
}
void __tsan_write4(void* p) {
  Access(p, 4, true, PC);
}
void __tsan_write8(void* p) {
  Access(p, 8, true, PC);
}
void __tsan_write16(void* p) {
  Access(p, 16, true, PC);
}
void __tsan_unaligned_read2(void* p) {
  Access(p, 2, false, PC);
}
void __tsan_unaligned_read4(void* p) {
  Access(p, 4, false, PC);
}
void __tsan_unaligned_read8(void* p) {
  Access(p, 8, false, PC);
}
void __tsan_unaligned_read16(void* p) {
  Access(p, 16, false, PC);
}
void __tsan_unaligned_write2(void* p) {
  Access(p, 2, true, PC);
}
void __tsan_unaligned_write4(void* p) {
  Access(p, 4, true, PC);
}
void __tsan_unaligned_write8(void* p) {
  Access(p, 8, true, PC);
}
void __tsan_unaligned_write16(void* p) {
  Access(p, 16, true, PC);
}
void __tsan_vptr_update(void** p, void*) {
  Access(p, 8, true, PC);
}
void __tsan_vptr_read(void** p) {
  Access(p, 8, false, PC);
}
void __tsan_read_range(void* p, unsigned long n) {
  RangeAccess(p, n, false, PC);
}
void __tsan_write_range(void* p, unsigned long n) {
  RangeAccess(p, n, true, PC);
}
void* __tsan_memcpy(void* d, const void* s, unsigned long n) {
  RangeAccess(s, n, false, PC);
  RangeAccess(d, n, true, PC);
  return std::memcpy(d, s, n);
}
void* __tsan_memmove(void* d, const void* s, unsigned long n) {
  RangeAccess(s, n, false, PC);
  RangeAccess(d, n, true, PC);
  return std::memmove(d, s, n);
}
void* __tsan_memset(void* d, int c, unsigned long n) {
  RangeAccess(d, n, true, PC);
  return std::memset(d, c, n);
}
}

// std::atomic operations inside instrumented code (harness helpers, libstdc++ headers): performed
// directly (one OS thread) and given the same happens-before meaning as the library's atomics.
namespace {
inline void A(int kind, const volatile void* p, int order) {
  if (vx::hb::gActive && vx::hb::gCur >= 0) {
    vx::hb::OnEvent(vx::hb::gCur, kind, const_cast<const void*>(p), order);
  }
}
}  // namespace
#define VX_TSAN_ATOMIC(bits, T)                                                                                        \
  extern "C" T __tsan_atomic##bits##_load(const volatile T* p, int o) {                                                \
    A(0, p, o);                                                                                                        \
    return *p;                                                                                                         \
  }                                                                                                                    \
  extern "C" void __tsan_atomic##bits##_store(volatile T* p, T v, int o) {                                             \
    A(1, p, o);                                                                                                        \
    *p = v;                                                                                                            \
  }                                                                                                                    \
  extern "C" T __tsan_atomic##bits##_exchange(volatile T* p, T v, int o) {                                             \
    A(2, p, o);                                                                                                        \
    T old = *p;                                                                                                        \
    *p = v;                                                                                                            \
    return old;                                                                                                        \
  }                                                                                                                    \
  extern "C" T __tsan_atomic##bits##_fetch_add(volatile T* p, T v, int o) {                                            \
    A(2, p, o);                                                                                                        \
    T old = *p;                                                                                                        \
    *p = old + v;                                                                                                      \
    return old;                                                                                                        \
  }                                                                                                                    \
  extern "C" T __tsan_atomic##bits##_fetch_sub(volatile T* p, T v, int o) {                                            \
    A(2, p, o);                                                                                                        \
    T old = *p;                                                                                                        \
    *p = old - v;                                                                                                      \
    return old;                                                                                                        \
  }                                                                                                                    \
  extern "C" T __tsan_atomic##bits##_fetch_and(volatile T* p, T v, int o) {                                            \
    A(2, p, o);                                                                                                        \
    T old = *p;                                                                                                        \
    *p = old & v;                                                                                                      \
    return old;                                                                                                        \
  }                                                                                                                    \
  extern "C" T __tsan_atomic##bits##_fetch_or(volatile T* p, T v, int o) {                                             \
    A(2, p, o);                                                                                                        \
    T old = *p;                                                                                                        \
    *p = old | v;                                                                                                      \
    return old;                                                                                                        \
  }                                                                                                                    \
  extern "C" T __tsan_atomic##bits##_fetch_xor(volatile T* p, T v, int o) {                                            \
    A(2, p, o);                                                                                                        \
    T old = *p;                                                                                                        \
    *p = old ^ v;                                                                                                      \
    return old;                                                                                                        \
  }                                                                                                                    \
  extern "C" int __tsan_atomic##bits##_compare_exchange_strong(volatile T* p, T* e, T d, int so, int fo) {            \
    if (*p == *e) {                                                                                                    \
      A(3, p, so);                                                                                                     \
      *p = d;                                                                                                          \
      return 1;                                                                                                        \
    }                                                                                                                  \
    A(4, p, fo);                                                                                                       \
    *e = *p;                                                                                                           \
    return 0;                                                                                                          \
  }                                                                                                                    \
  extern "C" int __tsan_atomic##bits##_compare_exchange_weak(volatile T* p, T* e, T d, int so, int fo) {              \
    return __tsan_atomic##bits##_compare_exchange_strong(p, e, d, so, fo);                                             \
  }
VX_TSAN_ATOMIC(8, unsigned char)
VX_TSAN_ATOMIC(16, unsigned short)
VX_TSAN_ATOMIC(32, unsigned int)
VX_TSAN_ATOMIC(64, unsigned long)
extern "C" void __tsan_atomic_thread_fence(int o) {
  A(5, nullptr, o);
}
extern "C" void __tsan_atomic_signal_fence(int) {
}
