// Interface between the engine and the happens-before monitor (engine/hbrt.cpp in the mc-hb
// variant, engine/hb_stub.cpp everywhere else).
#pragma once

#include <cstddef>

namespace vx::hb {

bool Enabled();
void ResetExecution();
void EndExecution();
void OnSwitch(int fiber);
void OnFiberStack(const void* lo, std::size_t n);
void OnSpawn(int parent, int child);
void OnJoin(int joiner, int child);
void OnEvent(int fiber, int kind, const void* obj, int order);
void EnterPrim();
void LeavePrim();
void OnAlloc(const void* p, std::size_t n);
// memory handed out by an allocator other than operator new (exception objects): forget what was there before
void OnRawAlloc(const void* p, std::size_t n);
void OnFree(const void* p);
unsigned long long Accesses();
unsigned long long SyncOps();

}  // namespace vx::hb
