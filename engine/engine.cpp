// vx engine: stateless, preemption-bounded, exhaustive exploration of YACLib code running on the
// FIBER fault-injection scheduler.  Compiled WITHOUT sanitizer instrumentation and with
// -fno-access-control (reads Scheduler::_queue, _sleep_list, BiList::_head).
//
// Process structure: a supervisor process forks one explorer child per cell (and again after every
// fatal outcome: crash, sanitizer abort, deadlock, livelock).  The choice path of the execution in
// flight lives in shared memory, so the supervisor always knows the exact schedule that killed a
// child, confirms it by replaying it in a fresh child, records it and resumes the depth-first
// search at the next sibling.
#include "vx.hpp"

#include <yaclib/fault/config.hpp>
#include <yaclib/fault/detail/fiber/scheduler.hpp>
#include <yaclib/fault/detail/fiber/thread.hpp>
#include <yaclib/fault/detail/verif.hpp>
#include <yaclib/fault/inject.hpp>
#include <yaclib/fault/injector.hpp>
#include <yaclib/log.hpp>

#include <algorithm>
#include <cerrno>
#include <chrono>
#include <csignal>
#include <cstdlib>
#include <fcntl.h>
#include <new>
#include <string>
#include <sys/mman.h>
#include <sys/wait.h>
#include <unistd.h>
#include <unordered_set>
#include <yaclib_std/thread>

#include "hb.hpp"

namespace yf = yaclib::detail::fiber;
using yaclib::fault::Scheduler;

namespace vx {
namespace {

// ------------------------------------------------------------------------------------------------
// Decisions
// ------------------------------------------------------------------------------------------------
enum DKind : std::uint8_t { kPreempt = 0, kFree = 1, kWake = 2, kSpur = 3, kTimerFree = 4, kRand = 5 };
const char* const kDKindName[] = {"preempt", "free", "wake", "spur", "timer", "rand"};

struct Dec {
  std::uint8_t kind;
  std::uint8_t n;
  std::uint8_t chosen;
  std::int8_t timer_alt;  // index of the "fire timer" alternative in a kPreempt menu, -1 if none
  std::uint32_t sig;
};

constexpr std::uint32_t kMaxDepth = 6000;
constexpr std::uint32_t kMaxViol = 24;
constexpr std::uint32_t kMaxViolPath = 1500;
constexpr int kMaxFibers = 64;

struct Viol {
  char oracle[64];
  char text[700];
  std::uint32_t path_len;
  Dec path[kMaxViolPath];
  int preemptions;
  int fatal;
  std::uint64_t count;
};

struct Shm {
  volatile std::uint64_t executions, nodes, transitions, events, distinct_traces, distinct_outcomes;
  volatile std::uint64_t max_depth, max_events, failing_execs, replay_checks, hb_accesses, hb_sync, por_hits, por_states;
  volatile std::uint64_t distinct_finals, finals_xor, outcomes_xor, finals_invalid;
  volatile int state;  // 0 running, 1 exhausted, 2 capped
  volatile int resume;
  volatile int in_warmup;
  volatile int fatal_recorded;
  char cap_reason[64];
  std::uint32_t path_len;
  Dec path[kMaxDepth];
  std::uint32_t nviol;
  Viol viol[kMaxViol];
  char sample_outcome[6][400];
  std::uint32_t nsample_outcome;
  char sample_path[3][600];
  std::uint32_t nsample_path;
};

struct Fib {
  yf::FiberBase* ptr = nullptr;
  bool dirty = false;
  std::uint32_t nevents = 0;
  // spin detection
  const void* last_load_obj = nullptr;
  std::uint64_t last_load_val = 0;
  int same_loads = 0;
  bool spinning = false;
  const void* spin_obj = nullptr;
};

struct TraceEv {
  int fiber;
  int kind;
  int obj;
  int order;
  unsigned long long before, after;
  std::string text;
};

struct Engine {
  Bounds bounds;
  int tier = 0;
  bool active = false;
  bool tracing = false;
  bool warmup = false;
  bool no_record = false;
  bool use_cache = true;
  Shm* shm = nullptr;
  Dec* path = nullptr;
  std::uint32_t* path_len = nullptr;
  std::uint32_t pos = 0;
  std::uint32_t fixed_len = 0;

  Scheduler* sched = nullptr;
  std::uint64_t base_id = 0;
  Fib fibs[kMaxFibers];
  int nfibs = 0;
  yf::FiberBase* forced_next = nullptr;
  bool fire_timer = false;
  int timers_fired = 0;
  std::uint64_t nevents = 0;
  std::uint64_t trace_hash = 0;
  std::uint64_t horizon = 20000;
  const void* objs[256];
  int nobjs = 0;
  std::string outcome;
  bool failed = false;
  char fail_oracle[64];
  char fail_text[700];
  int extra_fails = 0;
  std::vector<TraceEv> trace;

  struct Dead {
    const char* lo;
    const char* hi;
    const char* oracle;
  };
  Dead dead[8];
  int ndead = 0;

  int in_engine = 0;
  bool counting = false;
  std::uint64_t alloc_count = 0;

  std::unordered_set<std::uint64_t> trace_set;
  std::unordered_set<std::uint64_t> outcome_set;
  std::unordered_set<std::uint64_t> final_set;
  std::string cell_id;
  double deadline_s = 0;
  std::uint64_t max_exec = 0;
};

Engine g;

// ------------------------------------------------------------------------------------------------
// Partial-order fingerprint (state cache).  Every visible event gets a vector clock under the
// dependence relation "same object and at least one of the two modifies it (every mutex / condition
// variable / thread event modifies its object); program order; spawn; join".  The commutative sum of
// hash(fiber, seq, kind, canonical object name, clock) over the executed events identifies the
// Mazurkiewicz trace of the prefix; execution is deterministic given the trace, so two prefixes with
// the same fingerprint are the same program state.  Non-scheduling answers (spurious failure, which
// waiter was woken, coin, timer) and every reading of the explorer clock by an oracle (vx::Now) are
// folded in non-commutatively, so states that an oracle could tell apart are never merged.
// ------------------------------------------------------------------------------------------------
constexpr int kPF = 16;
struct PVC {
  std::uint16_t c[kPF];
  void Join(const PVC& o) {
    for (int i = 0; i < kPF; ++i) {
      if (o.c[i] > c[i]) {
        c[i] = o.c[i];
      }
    }
  }
};
struct PObj {
  std::uint64_t name;  // 0 = empty
  PVC w, r;
};
struct PBlock {
  const char* base;
  std::size_t size;
  std::uint64_t name;
};
struct Por {
  bool on = false;       // fingerprints are computed in this run
  bool prune = false;    // ... and used to prune (off with --no-cache: fingerprints are then only reported)
  bool ok = true;        // still valid in this execution (too many fibers / objects disables it)
  bool pruned = false;   // this execution reached an already visited state: no new alternatives below
  std::uint64_t fp = 0;
  PVC vc[kPF];
  static constexpr int kObjs = 256;
  PObj objs[kObjs];
  int nobjs = 0;
  static constexpr int kBlocks = 512;
  PBlock blocks[kBlocks];
  int nblocks = 0;
  std::uint32_t alloc_seq[kPF];
  int usedP = 0, usedS = 0, usedT = 0;
  std::uint64_t hits = 0;
};
Por gPor;
struct PorEntry {
  std::uint8_t p, s, t;
};
std::unordered_map<std::uint64_t, PorEntry>* gPorTable = nullptr;

inline std::uint64_t Mix64(std::uint64_t x) {
  x ^= x >> 30;
  x *= 0xbf58476d1ce4e5b9ULL;
  x ^= x >> 27;
  x *= 0x94d049bb133111ebULL;
  x ^= x >> 31;
  return x;
}

struct InEngine {
  InEngine() {
    ++g.in_engine;
  }
  ~InEngine() {
    --g.in_engine;
  }
};

double NowS() {
  timespec ts;
  clock_gettime(CLOCK_MONOTONIC, &ts);
  return ts.tv_sec + ts.tv_nsec * 1e-9;
}

// ------------------------------------------------------------------------------------------------
// Allocation ledger: live blocks allocated by non-engine code during the execution
// ------------------------------------------------------------------------------------------------
constexpr std::size_t kLiveCap = 1u << 12;
const void* gLive[kLiveCap];
std::int64_t gLiveCount = 0;

inline std::size_t PtrHash(const void* p) {
  auto x = reinterpret_cast<std::uintptr_t>(p);
  x ^= x >> 33;
  x *= 0xff51afd7ed558ccdULL;
  x ^= x >> 29;
  return x & (kLiveCap - 1);
}
void LiveInsert(const void* p) {
  std::size_t i = PtrHash(p);
  while (gLive[i] != nullptr) {
    i = (i + 1) & (kLiveCap - 1);
  }
  gLive[i] = p;
  ++gLiveCount;
}
bool LiveErase(const void* p) {
  std::size_t i = PtrHash(p);
  while (gLive[i] != nullptr) {
    if (gLive[i] == p) {
      // backward-shift deletion
      std::size_t j = i;
      for (;;) {
        j = (j + 1) & (kLiveCap - 1);
        if (gLive[j] == nullptr) {
          break;
        }
        std::size_t k = PtrHash(gLive[j]);
        if ((i <= j) ? (i < k && k <= j) : (i < k || k <= j)) {
          continue;
        }
        gLive[i] = gLive[j];
        i = j;
      }
      gLive[i] = nullptr;
      --gLiveCount;
      return true;
    }
    i = (i + 1) & (kLiveCap - 1);
  }
  return false;
}
void LiveClear() {
  if (gLiveCount != 0) {
    std::memset(gLive, 0, sizeof(gLive));
    gLiveCount = 0;
  }
}

// ------------------------------------------------------------------------------------------------
// Failure recording
// ------------------------------------------------------------------------------------------------
int CountPreemptions(const Dec* p, std::uint32_t n) {
  int c = 0;
  for (std::uint32_t i = 0; i < n; ++i) {
    if (p[i].kind == kPreempt && p[i].chosen != 0) {
      ++c;
    }
  }
  return c;
}

void RecordViolation(const char* oracle, const char* text, bool fatal) {
  Shm* s = g.shm;
  if (s == nullptr) {
    return;
  }
  const std::uint32_t len = *g.path_len;
  const int pre = CountPreemptions(g.path, len);
  for (std::uint32_t i = 0; i < s->nviol; ++i) {
    Viol& v = s->viol[i];
    if (std::strncmp(v.oracle, oracle, sizeof(v.oracle)) == 0) {
      ++v.count;
      if (pre < v.preemptions && len <= kMaxViolPath) {
        v.preemptions = pre;
        v.path_len = len;
        std::memcpy(v.path, g.path, len * sizeof(Dec));
        std::snprintf(v.text, sizeof(v.text), "%s", text);
        v.fatal = fatal;
      }
      return;
    }
  }
  if (s->nviol >= kMaxViol) {
    return;
  }
  Viol& v = s->viol[s->nviol];
  std::snprintf(v.oracle, sizeof(v.oracle), "%s", oracle);
  std::snprintf(v.text, sizeof(v.text), "%s", text);
  v.path_len = std::min(len, kMaxViolPath);
  std::memcpy(v.path, g.path, v.path_len * sizeof(Dec));
  v.preemptions = pre;
  v.fatal = fatal;
  v.count = 1;
  ++s->nviol;
}

[[noreturn]] void Fatal(const char* oracle, const char* fmt, ...) {
  char buf[700];
  va_list ap;
  va_start(ap, fmt);
  std::vsnprintf(buf, sizeof(buf), fmt, ap);
  va_end(ap);
  if (g.tracing) {
    std::printf("FATAL oracle=%s %s\n", oracle, buf);
    std::fflush(stdout);
    _exit(90);
  }
  if (g.shm != nullptr && !g.no_record) {
    RecordViolation(oracle, buf, true);
    g.shm->fatal_recorded = 1;
    ++g.shm->failing_execs;
  }
  _exit(90);
}

[[noreturn]] void Machinery(const char* fmt, ...) {
  char buf[700];
  va_list ap;
  va_start(ap, fmt);
  std::vsnprintf(buf, sizeof(buf), fmt, ap);
  va_end(ap);
  std::fprintf(stderr, "MACHINERY-ERROR %s\n", buf);
  std::fflush(stderr);
  _exit(92);
}

// ------------------------------------------------------------------------------------------------
// Choice
// ------------------------------------------------------------------------------------------------
bool PorVisited(int cur, DKind kind, std::uint32_t sig, int n);
std::uint64_t PorKey(int cur, DKind kind, std::uint32_t sig, int n);
void PorGlobal(std::uint64_t what);
void PorEvent(int f, int kind, const void* obj, bool writes, std::uint64_t extra);
char CostOf(const struct Dec& d, int alt);

void PorAccount(const Dec& d, int cur) {
  // budgets used so far, and the non-scheduling answers as part of the trace
  switch (CostOf(d, d.chosen)) {
    case 'P':
      ++gPor.usedP;
      break;
    case 'S':
      ++gPor.usedS;
      break;
    case 'T':
      ++gPor.usedT;
      break;
    default:
      break;
  }
  if (d.kind == kWake || d.kind == kRand || (d.kind == kSpur && d.chosen != 0)) {
    PorEvent(cur, 32 + d.kind, nullptr, false, static_cast<std::uint64_t>(d.chosen) + 1);
  }
}

int Choose(DKind kind, int n, int timer_alt, std::uint32_t sig) {
  yf::FiberBase* por_cur_ptr = Scheduler::Current();
  const int por_cur = (kind == kPreempt || kind == kSpur || kind == kRand || kind == kWake) && por_cur_ptr != nullptr
                        ? static_cast<int>(por_cur_ptr->GetId() - g.base_id)
                        : -1;
  if (g.tracing && gPor.on) {
    std::printf("  -- decision %u kind=%s n=%d cur=%d state=%016llx%s\n", g.pos, kDKindName[kind], n, por_cur,
                static_cast<unsigned long long>(PorKey(por_cur, kind, sig, n)), gPor.ok ? "" : " (fingerprint invalid)");
  }
  if (g.pos < *g.path_len) {
    Dec& d = g.path[g.pos];
    if (d.timer_alt == -2) {
      // recorded below an already visited state (menu not recorded): the default answer again
      if (d.kind != kind || (d.sig != sig && d.sig != 0)) {
        Machinery("divergence at pruned decision %u cell=%s", g.pos, g.cell_id.c_str());
      }
      ++g.pos;
      PorAccount(d, por_cur);
      return 0;
    }
    if (g.tracing && d.n == 0) {
      d.kind = kind;  // hand-written replay: [0,0,<choice>,-1,0] takes the kind and menu as they come
      d.n = static_cast<std::uint8_t>(n);
    }
    if (d.kind != kind || d.n != n || (d.sig != sig && d.sig != 0)) {
      Machinery("divergence at decision %u: recorded kind=%s n=%d sig=%08x, now kind=%s n=%d sig=%08x cell=%s", g.pos,
                kDKindName[d.kind], d.n, d.sig, kDKindName[kind], n, sig, g.cell_id.c_str());
    }
    d.sig = sig;
    d.timer_alt = static_cast<std::int8_t>(timer_alt);
    if (d.chosen >= n) {
      Machinery("choice %d out of range %d at decision %u", d.chosen, n, g.pos);
    }
    ++g.pos;
    PorAccount(d, por_cur);
    return d.chosen;
  }
  if (!gPor.pruned && PorVisited(por_cur, kind, sig, n)) {
    gPor.pruned = true;
  }
  if (g.pos >= kMaxDepth - 1) {
    Fatal("livelock", "more than %u decisions in one execution", kMaxDepth);
  }
  Dec& d = g.path[g.pos];
  d.kind = kind;
  d.n = static_cast<std::uint8_t>(gPor.pruned ? 1 : n);  // below an already visited state: no alternatives
  d.chosen = 0;
  d.timer_alt = static_cast<std::int8_t>(gPor.pruned ? -2 : timer_alt);
  d.sig = sig;
  ++g.pos;
  *g.path_len = g.pos;
  if (g.shm != nullptr && !g.warmup) {
    ++g.shm->nodes;
  }
  PorAccount(d, por_cur);
  return 0;
}

// cost of alternative `alt` of decision d: which budget (0 none, 'P','S','T')
char CostOf(const Dec& d, int alt) {
  switch (d.kind) {
    case kPreempt:
      if (alt == 0) {
        return 0;
      }
      return alt == d.timer_alt ? 'T' : 'P';
    case kSpur:
      return alt == 0 ? 0 : 'S';
    case kTimerFree:
      return alt == 0 ? 0 : 'T';
    default:
      return 0;
  }
}

// Advances path to the next sibling in depth-first order within the bounds; false when exhausted.
bool Backtrack(Dec* path, std::uint32_t& len, std::uint32_t fixed_len, const Bounds& b) {
  while (len > fixed_len) {
    // budgets used by the prefix before the last decision
    int p = 0, s = 0, t = 0;
    for (std::uint32_t i = 0; i + 1 < len; ++i) {
      switch (CostOf(path[i], path[i].chosen)) {
        case 'P':
          ++p;
          break;
        case 'S':
          ++s;
          break;
        case 'T':
          ++t;
          break;
        default:
          break;
      }
    }
    Dec& d = path[len - 1];
    for (int alt = d.chosen + 1; alt < d.n; ++alt) {
      const char c = CostOf(d, alt);
      const bool ok = c == 0 || (c == 'P' && p + 1 <= b.P) || (c == 'S' && s + 1 <= b.S) || (c == 'T' && t + 1 <= b.T);
      if (ok) {
        d.chosen = static_cast<std::uint8_t>(alt);
        return true;
      }
    }
    --len;
  }
  return false;
}

// ------------------------------------------------------------------------------------------------
// Fibers
// ------------------------------------------------------------------------------------------------
int RelId(yf::FiberBase* f) {
  return static_cast<int>(f->GetId() - g.base_id);
}

Fib& FibOf(yf::FiberBase* f) {
  const int id = RelId(f);
  if (id < 0 || id >= kMaxFibers) {
    Machinery("fiber id %d out of range", id);
  }
  if (id >= g.nfibs) {
    g.nfibs = id + 1;
  }
  Fib& fb = g.fibs[id];
  fb.ptr = f;
  return fb;
}

yf::FiberBase* FromSchedNode(yf::Node* n) {
  return static_cast<yf::FiberBase*>(static_cast<yf::BiNodeScheduler*>(n));
}
yf::FiberBase* FromWaitNode(yf::Node* n) {
  return static_cast<yf::FiberBase*>(static_cast<yf::BiNodeWaitQueue*>(n));
}

int Collect(yf::BiList* list, bool sched_list, yf::FiberBase** out, int cap) {
  int n = 0;
  yf::Node* head = &list->_head;
  for (yf::Node* it = head->next; it != head; it = it->next) {
    if (n == cap) {
      Machinery("list too long");
    }
    out[n++] = sched_list ? FromSchedNode(it) : FromWaitNode(it);
  }
  std::sort(out, out + n, [](yf::FiberBase* a, yf::FiberBase* b) {
    return a->GetId() < b->GetId();
  });
  return n;
}

std::uint32_t Sig(int cur, std::uint32_t nev, int kind, yf::FiberBase** menu, int n) {
  std::uint32_t h = 2166136261u;
  auto mix = [&](std::uint32_t v) {
    h = (h ^ v) * 16777619u;
  };
  mix(static_cast<std::uint32_t>(cur + 1));
  mix(nev);
  mix(static_cast<std::uint32_t>(kind));
  for (int i = 0; i < n; ++i) {
    mix(static_cast<std::uint32_t>(RelId(menu[i]) + 1));
  }
  return h == 0 ? 1 : h;
}

// The sleepers in deadline order (slot by slot; which fibers share a slot; emptied slots), without the
// absolute times: part of the state an execution's events do not determine, because two independent
// fibers that start timed waits get their deadlines in the order in which they happened to run.
std::uint32_t SleepSig() {
  std::uint32_t h = 0x51ee9;
  if (g.sched == nullptr) {
    return h;
  }
  for (auto& slot : g.sched->_sleep_list) {
    h = (h ^ 0xfffe) * 16777619u;
    yf::FiberBase* in_slot[kMaxFibers];
    const int n = Collect(&slot.second, true, in_slot, kMaxFibers);
    for (int i = 0; i < n; ++i) {
      h = (h ^ static_cast<std::uint32_t>(RelId(in_slot[i]) + 1)) * 16777619u;
    }
  }
  return h;
}

// Who is in the run queue: asked at every decision, because the decisions about a spurious failure, a waiter or a
// coin do not carry a menu of fibers of their own.
std::uint32_t RunnableSig() {
  std::uint32_t h = 0x9e3779b1u;
  if (g.sched == nullptr) {
    return h;
  }
  yf::FiberBase* q[kMaxFibers];
  const int n = Collect(&g.sched->_queue, true, q, kMaxFibers);
  for (int i = 0; i < n; ++i) {
    h = (h ^ static_cast<std::uint32_t>(RelId(q[i]) + 1)) * 16777619u;
  }
  return h;
}

int ObjIndex(const void* obj) {
  if (obj == nullptr) {
    return -1;
  }
  for (int i = 0; i < g.nobjs; ++i) {
    if (g.objs[i] == obj) {
      return i;
    }
  }
  if (g.nobjs < 256) {
    g.objs[g.nobjs] = obj;
    return g.nobjs++;
  }
  return 255;
}

void TraceMix(std::uint64_t v) {
  g.trace_hash = (g.trace_hash ^ v) * 0x100000001b3ULL;
}

// ------------------------------------------------------------------------------------------------
// Hooks
// ------------------------------------------------------------------------------------------------
// canonical, interleaving-independent name of the object at `p`
std::uint64_t PorName(const void* p) {
  if (p == nullptr) {
    return 1;
  }
  const char* cp = static_cast<const char*>(p);
  for (int i = gPor.nblocks - 1; i >= 0; --i) {
    const PBlock& b = gPor.blocks[i];
    if (cp >= b.base && cp < b.base + b.size) {
      return Mix64(b.name + static_cast<std::uint64_t>(cp - b.base) + 0x51);
    }
  }
  for (int i = 0; i < g.nfibs; ++i) {
    yf::FiberBase* f = g.fibs[i].ptr;
    if (f != nullptr) {
      const char* lo = f->_stack._allocation.start;
      if (lo != nullptr && cp >= lo && cp < lo + f->_stack._allocation.size) {
        return Mix64((static_cast<std::uint64_t>(i + 1) << 48) ^ static_cast<std::uint64_t>(cp - lo) ^ 0x57ac);
      }
    }
  }
  return Mix64(reinterpret_cast<std::uintptr_t>(p));
}

PObj* PorObj(std::uint64_t name) {
  for (int i = 0; i < gPor.nobjs; ++i) {
    if (gPor.objs[i].name == name) {
      return &gPor.objs[i];
    }
  }
  if (gPor.nobjs == Por::kObjs) {
    gPor.ok = false;
    return nullptr;
  }
  PObj& o = gPor.objs[gPor.nobjs++];
  std::memset(&o, 0, sizeof(o));
  o.name = name;
  return &o;
}

void PorEvent(int f, int kind, const void* obj, bool writes, std::uint64_t extra) {
  if (!gPor.on || !gPor.ok) {
    return;
  }
  if (f < 0 || f >= kPF) {
    gPor.ok = false;
    return;
  }
  PVC& v = gPor.vc[f];
  ++v.c[f];
  std::uint64_t name = 0;
  if (obj != nullptr) {
    name = PorName(obj);
    PObj* o = PorObj(name);
    if (o == nullptr) {
      return;
    }
    if (writes) {
      v.Join(o->w);
      v.Join(o->r);
      o->w = v;
      std::memset(&o->r, 0, sizeof(o->r));
    } else {
      v.Join(o->w);
      o->r.Join(v);
    }
  }
  std::uint64_t h = Mix64((static_cast<std::uint64_t>(f + 1) << 56) ^ (static_cast<std::uint64_t>(kind) << 48) ^ name ^ extra);
  for (int i = 0; i < kPF; ++i) {
    h = Mix64(h + v.c[i] + static_cast<std::uint64_t>(i) * 0x9e3779b97f4a7c15ULL);
  }
  gPor.fp += h;
  if (g.tracing) {
    std::printf("     . event-hash %016llx f%d kind=%d name=%016llx extra=%llu clock=", static_cast<unsigned long long>(h), f, kind,
                static_cast<unsigned long long>(name), static_cast<unsigned long long>(extra));
    for (int i = 0; i < 6; ++i) {
      std::printf("%u ", v.c[i]);
    }
    std::printf("\n");
  }
}

// an occurrence every later event is ordered after (timer, explorer-clock reading, ...)
void PorGlobal(std::uint64_t what) {
  if (gPor.on && gPor.ok) {
    gPor.fp = Mix64(gPor.fp ^ what);
    if (g.tracing) {
      std::printf("     . fold %016llx\n", static_cast<unsigned long long>(what));
    }
  }
}

void PorOnAlloc(const void* p, std::size_t n) {
  if (!gPor.on || !gPor.ok || !g.active) {
    return;
  }
  yf::FiberBase* cur = Scheduler::Current();
  const int f = cur != nullptr ? static_cast<int>(cur->GetId() - g.base_id) : -1;
  if (f < 0 || f >= kPF) {
    return;
  }
  if (gPor.nblocks == Por::kBlocks) {
    gPor.ok = false;
    return;
  }
  const std::uint32_t seq = ++gPor.alloc_seq[f];
  gPor.blocks[gPor.nblocks++] = {static_cast<const char*>(p), n != 0 ? n : 1,
                                 Mix64((static_cast<std::uint64_t>(f + 1) << 40) ^ (static_cast<std::uint64_t>(seq) << 8) ^ 0xa110c)};
}
void PorOnFree(const void* p) {
  if (!gPor.on || gPor.nblocks == 0) {
    return;
  }
  for (int i = gPor.nblocks - 1; i >= 0; --i) {
    if (gPor.blocks[i].base == p) {
      gPor.blocks[i] = gPor.blocks[--gPor.nblocks];
      return;
    }
  }
}

void PorReset() {
  gPor.ok = true;
  gPor.pruned = false;
  gPor.fp = 0x1234567;
  std::memset(gPor.vc, 0, sizeof(gPor.vc));
  gPor.nobjs = 0;
  gPor.nblocks = 0;
  std::memset(gPor.alloc_seq, 0, sizeof(gPor.alloc_seq));
  gPor.usedP = gPor.usedS = gPor.usedT = 0;
}

// The key of a state at a decision: the fingerprint of what was executed, who decides, and the menu
// (sig hashes the ids of the fibers that can run, n also counts a timer alternative).  The menu is
// part of the key because a fiber's exit and a fiber blocking are not events: two prefixes with the
// same events can differ in whether a fiber has already left / is already parked.  The run queue is
// hashed in at every kind of decision (RunnableSig), not only where the menu is a menu of fibers.
std::uint64_t PorKey(int cur, DKind kind, std::uint32_t sig, int n) {
  return Mix64(gPor.fp ^ (static_cast<std::uint64_t>(cur + 2) << 8) ^ static_cast<std::uint64_t>(kind) ^
               (static_cast<std::uint64_t>(sig) << 24) ^ (static_cast<std::uint64_t>(n) << 16) ^
               (static_cast<std::uint64_t>(g.bounds.T > 0 ? SleepSig() : 0) << 3) ^
               (static_cast<std::uint64_t>(RunnableSig()) << 29));
}

// Called when a NEW decision node is about to be created.  Returns true if the state was already
// visited with at least as much budget left: the subtree below is then not explored again.
bool PorVisited(int cur, DKind kind, std::uint32_t sig, int n) {
  if (!gPor.on || !gPor.prune || !gPor.ok || gPorTable == nullptr || g.warmup) {
    return false;
  }
  const std::uint64_t key = PorKey(cur, kind, sig, n);
  auto clamp = [](int v) {
    return static_cast<std::uint8_t>(v < 0 ? 0 : v > 250 ? 250 : v);
  };
  const PorEntry now{clamp(g.bounds.P - gPor.usedP), clamp(g.bounds.S - gPor.usedS), clamp(g.bounds.T - gPor.usedT)};
  auto it = gPorTable->find(key);
  static const char* dbg = std::getenv("VX_DUMP_CACHE");
  if (dbg != nullptr) {
    if (FILE* df = std::fopen(dbg, "a")) {
      std::fprintf(df, "%s %016llx pos=%u cur=%d kind=%d budget=%d,%d,%d\n", it == gPorTable->end() ? "new" : "old",
                   static_cast<unsigned long long>(key), g.pos, cur, static_cast<int>(kind), now.p, now.s, now.t);
      std::fclose(df);
    }
  }
  if (it == gPorTable->end()) {
    if (gPorTable->size() < 40000000) {
      gPorTable->emplace(key, now);
    }
    return false;
  }
  PorEntry& old = it->second;
  if (now.p <= old.p && now.s <= old.s && now.t <= old.t) {
    ++gPor.hits;
    return true;
  }
  if (now.p >= old.p && now.s >= old.s && now.t >= old.t) {
    old = now;
  }
  return false;
}

int HNeedInject() {
  if (!g.active) {
    return 0;
  }
  yf::FiberBase* cur = Scheduler::Current();
  if (cur == nullptr) {
    return 0;
  }
  InEngine guard;
  Fib& f = FibOf(cur);
  if (!g.bounds.all_points && !f.dirty) {
    return 0;
  }
  f.dirty = false;
  yf::FiberBase* others[kMaxFibers];
  int n_others = Collect(&g.sched->_queue, true, others, kMaxFibers);
  if (f.spinning) {
    // The fiber keeps re-reading the same value: it is descheduled for free until another fiber
    // modifies the object it polls (see HEvent).  If nothing else can run it simply continues, and
    // only a long run of identical reads with nobody else runnable is a livelock.
    if (n_others == 0 && g.sched->_sleep_list.empty()) {
      f.spinning = false;
      if (f.same_loads > 200) {
        Fatal("livelock", "fiber %d spins on object #%d and no other fiber can run", RelId(cur), ObjIndex(f.spin_obj));
      }
      return 0;
    }
    return 1;  // yield; HPick makes the free decision among the others
  }
  const bool timer = g.bounds.T > 0 && !g.sched->_sleep_list.empty();
  const int n = 1 + n_others + (timer ? 1 : 0);
  if (n == 1) {
    return 0;
  }
  const int timer_alt = timer ? n - 1 : -1;
  const int c = Choose(kPreempt, n, timer_alt, Sig(RelId(cur), f.nevents, kPreempt, others, n_others));
  if (c == 0) {
    return 0;
  }
  if (c == timer_alt) {
    g.fire_timer = true;
    return 1;
  }
  g.forced_next = others[c - 1];
  return 1;
}

void* HPick(void* bilist) {
  if (!g.active) {
    return nullptr;
  }
  InEngine guard;
  auto* list = static_cast<yf::BiList*>(bilist);
  yf::FiberBase* menu[kMaxFibers];
  if (list == &g.sched->_queue) {
    if (g.forced_next != nullptr) {
      yf::FiberBase* f = g.forced_next;
      g.forced_next = nullptr;
      return static_cast<yf::Node*>(static_cast<yf::BiNodeScheduler*>(f));
    }
    int n = Collect(list, true, menu, kMaxFibers);
    // spinning fibers are not eligible while something else can run
    int m = 0;
    yf::FiberBase* elig[kMaxFibers];
    for (int i = 0; i < n; ++i) {
      if (!FibOf(menu[i]).spinning) {
        elig[m++] = menu[i];
      }
    }
    if (m == 0) {
      // only spinners are runnable: let them poll again (a sleeper, if any, is woken by RunLoop once
      // the queue drains; a spinner that never stops is caught by the same_loads limit / horizon)
      for (int i = 0; i < n; ++i) {
        Fib& sp = FibOf(menu[i]);
        sp.spinning = false;
        if (sp.same_loads > 200) {
          Fatal("livelock", "only spinning fibers are runnable (%d of them)", n);
        }
        elig[m++] = menu[i];
      }
    }
    int c = 0;
    if (m > 1) {
      c = Choose(kFree, m, -1, Sig(-1, static_cast<std::uint32_t>(g.nevents), kFree, elig, m));
    }
    return static_cast<yf::Node*>(static_cast<yf::BiNodeScheduler*>(elig[c]));
  }
  // a wait queue: which waiter does NotifyOne wake
  const int n = Collect(list, false, menu, kMaxFibers);
  if (n == 0) {
    return nullptr;
  }
  int c = 0;
  if (n > 1) {
    c = Choose(kWake, n, -1, Sig(-2, static_cast<std::uint32_t>(g.nevents), kWake, menu, n));
  }
  return static_cast<yf::Node*>(static_cast<yf::BiNodeWaitQueue*>(menu[c]));
}

int HFailWeak() {
  if (!g.active) {
    return 0;
  }
  if (g.bounds.S <= 0) {
    return 0;
  }
  InEngine guard;
  yf::FiberBase* cur = Scheduler::Current();
  const int id = cur != nullptr ? RelId(cur) : -1;
  const std::uint32_t nev = cur != nullptr ? FibOf(cur).nevents : 0;
  return Choose(kSpur, 2, -1, Sig(id, nev, kSpur, nullptr, 0));
}

long long HRand(unsigned long long max) {
  if (!g.active) {
    return -1;
  }
  if (max <= 1 || !g.bounds.rand_choice) {
    return 0;
  }
  InEngine guard;
  yf::FiberBase* cur = Scheduler::Current();
  const int id = cur != nullptr ? RelId(cur) : -1;
  const std::uint32_t nev = cur != nullptr ? FibOf(cur).nevents : 0;
  return Choose(kRand, 2, -1, Sig(id, nev, kRand, nullptr, 0));
}

bool HFireTimer() {
  if (!g.active) {
    return false;
  }
  InEngine guard;
  if (g.fire_timer) {
    g.fire_timer = false;
    ++g.timers_fired;
    if (g.tracing) {
      g.trace.push_back({-1, 100, -1, 0, 0, 0, "timer fired (preempting)"});
    }
    TraceMix(0x7117);
    PorGlobal(0x7117);
    return true;
  }
  if (g.forced_next != nullptr || g.bounds.T <= 0) {
    return false;
  }
  // free switch with both runnable fibers and sleepers: may the timer land first?
  yf::FiberBase* runnable[kMaxFibers];
  const int n_runnable = Collect(&g.sched->_queue, true, runnable, kMaxFibers);
  const int c = Choose(kTimerFree, 2, -1, Sig(-3, static_cast<std::uint32_t>(g.nevents), kTimerFree, runnable, n_runnable));
  if (c == 1) {
    ++g.timers_fired;
    if (g.tracing) {
      g.trace.push_back({-1, 100, -1, 0, 0, 0, "timer fired (at a free switch)"});
    }
    TraceMix(0x7118);
    PorGlobal(0x7118);
    return true;
  }
  return false;
}

void HResumed(unsigned long long id) {
  if (!g.active) {
    return;
  }
  const int rel = static_cast<int>(id - g.base_id);
  if (hb::Enabled()) {
    yf::FiberBase* cur = Scheduler::Current();
    if (cur != nullptr && rel >= 0 && rel < kMaxFibers && g.fibs[rel].ptr != cur) {
      // first resume of this fiber: its (possibly recycled) stack has no history
      hb::OnFiberStack(cur->_stack._allocation.start, cur->_stack._allocation.size);
    }
    if (cur != nullptr) {
      FibOf(cur);
    }
  }
  hb::OnSwitch(rel);
}

void HEvent(int kind, const void* obj, int order, unsigned long long before, unsigned long long after) {
  if (!g.active) {
    return;
  }
  yf::FiberBase* cur = Scheduler::Current();
  InEngine guard;
  if (kind == yaclib::verif::kSpawn) {
    // reported by the parent (or by the non-fiber main for the root) before the child is scheduled
    if (cur == nullptr) {
      g.base_id = before;  // the root fiber: ids of this execution are relative to it
    }
    const int child = static_cast<int>(before - g.base_id);
    hb::OnSpawn(cur != nullptr ? RelId(cur) : -1, child);
  }
  if (cur == nullptr) {
    return;
  }
  Fib& f = FibOf(cur);
  const int self = RelId(cur);
  f.dirty = true;
  ++f.nevents;
  ++g.nevents;
  if (g.nevents > g.horizon) {
    Fatal("livelock", "more than %llu visible events in one execution", static_cast<unsigned long long>(g.horizon));
  }
  // dead regions
  for (int i = 0; i < g.ndead; ++i) {
    const char* p = static_cast<const char*>(obj);
    if (p != nullptr && p >= g.dead[i].lo && p < g.dead[i].hi && kind != yaclib::verif::kSpawn &&
        kind != yaclib::verif::kJoin) {
      Fail(g.dead[i].oracle, "fiber %d performed a %d-event on an object inside a region declared dead", self, kind);
    }
  }
  // spin detection: two consecutive loads of the same object returning the same bits, with no event
  // of this fiber in between, and no event of another fiber in between (checked via spin reset below)
  if (kind == yaclib::verif::kLoad) {
    if (f.last_load_obj == obj && f.last_load_val == after) {
      if (++f.same_loads >= 3) {
        f.spinning = true;
        f.spin_obj = obj;
      }
    } else {
      f.last_load_obj = obj;
      f.last_load_val = after;
      f.same_loads = 0;
    }
  } else {
    f.last_load_obj = nullptr;
    f.same_loads = 0;
    if (kind != yaclib::verif::kCasFail) {
      // a modification (or any synchronising operation) releases fibers spinning on that object
      for (int i = 0; i < g.nfibs; ++i) {
        Fib& o = g.fibs[i];
        if (&o != &f && o.spinning && (o.spin_obj == obj || kind >= yaclib::verif::kLock)) {
          o.spinning = false;
          o.same_loads = 0;
          o.last_load_obj = nullptr;
        }
      }
    }
  }
  const int oi = ObjIndex(obj);
  TraceMix((static_cast<std::uint64_t>(self + 1) << 40) ^ (static_cast<std::uint64_t>(kind) << 32) ^
           (static_cast<std::uint64_t>(oi + 1) << 8) ^ static_cast<std::uint64_t>(order));
  if (g.tracing) {
    g.trace.push_back({self, kind, oi, order, before, after, {}});
  }
  hb::OnEvent(self, kind, obj, order);
  if (kind == yaclib::verif::kJoin) {
    hb::OnJoin(self, static_cast<int>(before - g.base_id));
  }
  if (gPor.on && gPor.ok) {
    const bool reads_only = kind == yaclib::verif::kLoad || kind == yaclib::verif::kCasFail;
    if (kind == yaclib::verif::kSpawn) {
      const int child = static_cast<int>(before - g.base_id);
      PorEvent(self, kind, nullptr, false, static_cast<std::uint64_t>(child) + 1);
      if (child >= 0 && child < kPF && self >= 0 && self < kPF) {
        gPor.vc[child] = gPor.vc[self];  // the child starts after everything its parent did
      } else {
        gPor.ok = false;
      }
    } else if (kind == yaclib::verif::kJoin) {
      const int child = static_cast<int>(before - g.base_id);
      if (child >= 0 && child < kPF && self >= 0 && self < kPF) {
        gPor.vc[self].Join(gPor.vc[child]);
      } else {
        gPor.ok = false;
      }
      PorEvent(self, kind, nullptr, false, static_cast<std::uint64_t>(child) + 1);
    } else if (kind == yaclib::verif::kFence) {
      PorEvent(self, kind, nullptr, false, static_cast<std::uint64_t>(order));
    } else {
      PorEvent(self, kind, obj, !reads_only, 0);
    }
  }
}

void HEnterPrim() {
  hb::EnterPrim();
}
void HLeavePrim() {
  hb::LeavePrim();
}

void LogCallback(std::string_view file, std::size_t line, std::string_view /*function*/, std::string_view condition,
                 std::string_view message) noexcept {
  if (!g.active) {
    return;
  }
  InEngine guard;
  // library assertion (YACLIB_ASSERT / YACLIB_DEBUG) fired
  auto pos = file.find_last_of('/');
  std::string_view base = pos == std::string_view::npos ? file : file.substr(pos + 1);
  char oracle[64];
  std::snprintf(oracle, sizeof(oracle), "assert:%.*s:%zu", static_cast<int>(base.size()), base.data(), line);
  std::fprintf(stderr, "Assertion %s fired: %.*s %.*s\n", oracle, static_cast<int>(condition.size()), condition.data(),
               static_cast<int>(message.size()), message.data());
  Fail(oracle, "library assertion fired: %.*s %.*s", static_cast<int>(condition.size()), condition.data(),
       static_cast<int>(message.size()), message.data());
}

void InstallHooks() {
  auto& h = yaclib::verif::gHooks;
  h.need_inject = &HNeedInject;
  h.pick = &HPick;
  h.fail_weak = &HFailWeak;
  h.rand = &HRand;
  h.fire_timer = &HFireTimer;
  h.resumed = &HResumed;
  h.event = &HEvent;
  h.enter_prim = &HEnterPrim;
  h.leave_prim = &HLeavePrim;
  yaclib::detail::SetCallback(yaclib::detail::LogLevel::Debug, &LogCallback);
  yaclib::fiber::SetStackSize(64);
  yaclib::fiber::SetFaultTickLength(1);
  yaclib::fiber::SetHardwareConcurrency(2);
  yaclib::SetFaultSleepTime(1);
}

// ------------------------------------------------------------------------------------------------
// Tracked ledger
// ------------------------------------------------------------------------------------------------
constexpr std::size_t kLedgerCap = 1u << 10;
bool gLedgerDirty = false;
struct LedgerEnt {
  const void* p;
  int id;
  int state;  // 1 alive, 2 moved-from
};
LedgerEnt gLedger[kLedgerCap];
int gLedgerAlive = 0;

LedgerEnt* LedgerFind(const void* p, bool insert) {
  std::size_t i = PtrHash(p) & (kLedgerCap - 1);
  LedgerEnt* tomb = nullptr;
  for (std::size_t k = 0; k < kLedgerCap; ++k) {
    LedgerEnt& e = gLedger[i];
    if (e.p == p && e.state != 0) {
      return &e;
    }
    if (e.p == nullptr) {
      if (!insert) {
        return nullptr;
      }
      return tomb != nullptr ? tomb : &e;
    }
    if (e.state == 0 && tomb == nullptr) {
      tomb = &e;
    }
    i = (i + 1) & (kLedgerCap - 1);
  }
  return tomb;
}

}  // namespace

// ------------------------------------------------------------------------------------------------
// Public API
// ------------------------------------------------------------------------------------------------
void Fail(const char* oracle, const char* fmt, ...) {
  InEngine guard;
  char buf[700];
  va_list ap;
  va_start(ap, fmt);
  std::vsnprintf(buf, sizeof(buf), fmt, ap);
  va_end(ap);
  if (g.tracing) {
    g.trace.push_back({Self(), 101, -1, 0, 0, 0, std::string("ORACLE FAILED ") + oracle + ": " + buf});
  }
  if (g.failed) {
    ++g.extra_fails;
    return;
  }
  g.failed = true;
  std::snprintf(g.fail_oracle, sizeof(g.fail_oracle), "%s", oracle);
  std::snprintf(g.fail_text, sizeof(g.fail_text), "%s", buf);
}

void Touch() {
  yf::FiberBase* cur = Scheduler::Current();
  if (cur != nullptr && g.active) {
    FibOf(cur).dirty = true;
  }
}

void Point() {
  yf::FiberBase* cur = Scheduler::Current();
  if (cur != nullptr && g.active) {
    Fib& f = FibOf(cur);
    f.dirty = true;
    ++f.nevents;
    f.last_load_obj = nullptr;
    f.same_loads = 0;
    ++g.nevents;
    PorEvent(RelId(cur), 40, nullptr, false, 0);
    yaclib::InjectFault();
  }
}

std::uint64_t Now() {
  // an oracle reads the linear clock: what it reads becomes part of the state
  PorGlobal(0x5747 ^ (g.nevents << 16) ^ (static_cast<std::uint64_t>(Self() + 2) << 8));
  return g.nevents;
}

std::uint64_t VirtualNow() {
  return g.sched != nullptr ? g.sched->GetTimeNs() : 0;
}

int Self() {
  yf::FiberBase* cur = Scheduler::Current();
  return cur != nullptr && g.active ? RelId(cur) : -1;
}

void Mark(const char* fmt, ...) {
  InEngine guard;
  ++g.nevents;
  PorGlobal(0x3a7c ^ (g.nevents << 16));
  if (!g.tracing) {
    return;
  }
  char buf[300];
  va_list ap;
  va_start(ap, fmt);
  std::vsnprintf(buf, sizeof(buf), fmt, ap);
  va_end(ap);
  g.trace.push_back({Self(), 102, -1, 0, 0, 0, buf});
}

void Outcome(const char* fmt, ...) {
  InEngine guard;
  char buf[300];
  va_list ap;
  va_start(ap, fmt);
  std::vsnprintf(buf, sizeof(buf), fmt, ap);
  va_end(ap);
  if (g.outcome.size() < 380) {
    g.outcome += buf;
  }
}

bool Tracing() {
  return g.tracing;
}

void Fold(std::uint64_t value) {
  PorGlobal(Mix64(value ^ (static_cast<std::uint64_t>(Self() + 2) << 56)));
}

// A harness variable shared between fibers: an access is an event on that object under the usual
// dependence (two accesses conflict iff same object and one writes), not a decision point.
void SharedAccess(const void* obj, bool writes, std::uint64_t value) {
  const int self = Self();
  if (self < 0) {
    return;
  }
  InEngine guard;
  PorEvent(self, writes ? 42 : 41, obj, writes, value);
}

int TimersFired() {
  return g.timers_fired;
}

void DeadRegion(const void* p, std::size_t n, const char* oracle) {
  if (g.ndead < 8) {
    g.dead[g.ndead++] = {static_cast<const char*>(p), static_cast<const char*>(p) + n, oracle};
  }
}

void ClearDeadRegions() {
  g.ndead = 0;
}

std::uint64_t AllocCount() {
  return g.alloc_count;
}
std::int64_t AllocLive() {
  return gLiveCount;
}

const Bounds& GetBounds() {
  return g.bounds;
}

void LedgerCtor(const void* p, int id) {
  if (!g.active) {
    return;
  }
  LedgerEnt* e = LedgerFind(p, false);
  if (e != nullptr) {
    Fail("ledger:construct-over-live", "object %d constructed at %p over live tracked object %d", id, p, e->id);
    e->id = id;
    e->state = 1;
    return;
  }
  e = LedgerFind(p, true);
  if (e == nullptr) {
    Machinery("ledger full");
  }
  gLedgerDirty = true;
  e->p = p;
  e->id = id;
  e->state = 1;
  ++gLedgerAlive;
}
void LedgerMovedFrom(const void* p) {
  if (!g.active) {
    return;
  }
  LedgerEnt* e = LedgerFind(p, false);
  if (e != nullptr) {
    e->state = 2;
  }
}
void LedgerDtor(const void* p, int id) {
  if (!g.active) {
    return;
  }
  LedgerEnt* e = LedgerFind(p, false);
  if (e == nullptr) {
    Fail("ledger:double-destroy", "tracked object %d at %p destroyed but not alive (double destruction)", id, p);
    return;
  }
  e->state = 0;
  --gLedgerAlive;
}
// returns 0 ok, 1 dead, 2 moved-from
int LedgerCheck(const void* p) {
  if (!g.active) {
    return 0;
  }
  LedgerEnt* e = LedgerFind(p, false);
  if (e == nullptr) {
    return 1;
  }
  return e->state == 2 ? 2 : 0;
}
int LedgerAlive() {
  return gLedgerAlive;
}

namespace {

// ------------------------------------------------------------------------------------------------
// One execution
// ------------------------------------------------------------------------------------------------
void ResetExecution() {
  for (int i = 0; i < g.nfibs; ++i) {
    g.fibs[i] = Fib{};
  }
  g.nfibs = 0;
  g.forced_next = nullptr;
  g.fire_timer = false;
  g.timers_fired = 0;
  g.nevents = 0;
  g.trace_hash = 1469598103934665603ULL;
  g.nobjs = 0;
  g.outcome.clear();
  g.failed = false;
  g.extra_fails = 0;
  g.ndead = 0;
  g.pos = 0;
  g.alloc_count = 0;
  LiveClear();
  if (gLedgerDirty) {
    std::memset(gLedger, 0, sizeof(gLedger));
    gLedgerAlive = 0;
    gLedgerDirty = false;
  }
  hb::ResetExecution();
  PorReset();
}

void RunExecution(const Cell& cell) {
  ResetExecution();
  Scheduler sched;
  Scheduler::Set(&sched);
  g.sched = &sched;
  // ids are handed out by a process-wide counter: the root gets the next one
  g.base_id = 0;  // set by the root's spawn event
  g.counting = true;
  g.active = true;
  auto* root = new yaclib_std::thread([&cell] {
    try {
      vxh::Body(cell);
    } catch (const std::exception& e) {
      Fail("harness:exception", "exception escaped the harness body: %s", e.what());
    } catch (...) {
      Fail("harness:exception", "unknown exception escaped the harness body");
    }
  });
  g.active = false;
  if (root->_impl->GetState() != yf::Completed) {
    // some fiber is parked forever: deadlock / lost wake-up.  The process state cannot be unwound.
    g.active = true;  // keep ledger answers consistent for the record
    int parked = 0;
    for (int i = 0; i < g.nfibs; ++i) {
      parked += g.fibs[i].ptr != nullptr ? 1 : 0;
    }
    Fatal("deadlock", "no fiber is runnable but the root fiber has not finished (%d fibers seen, %llu events)", parked,
          static_cast<unsigned long long>(g.nevents));
  }
  g.active = true;  // ledger still live while the root's captured state is destroyed
  root->join();
  delete root;
  g.active = false;
  g.counting = false;
  Scheduler::Set(nullptr);
  g.sched = nullptr;
  if (!g.warmup) {
    if (gLedgerAlive != 0) {
      g.active = true;
      Fail("ledger:leak", "%d tracked object(s) still alive at quiescence", gLedgerAlive);
      g.active = false;
    }
    if (gLiveCount != 0) {
      g.active = true;
      Fail("alloc:leak", "%lld heap block(s) allocated during the execution still live at quiescence",
           static_cast<long long>(gLiveCount));
      g.active = false;
    }
  }
  hb::EndExecution();
  if (g.shm != nullptr && !g.warmup) {
    g.shm->hb_accesses = hb::Accesses();
    g.shm->hb_sync = hb::SyncOps();
  }
}

std::string PathToString(const Dec* p, std::uint32_t n) {
  std::string s;
  for (std::uint32_t i = 0; i < n; ++i) {
    if (p[i].chosen != 0) {
      char b[48];
      std::snprintf(b, sizeof(b), "%s@%u:%s%u/%u", s.empty() ? "" : " ", i, kDKindName[p[i].kind], p[i].chosen, p[i].n);
      s += b;
    }
  }
  char b[32];
  std::snprintf(b, sizeof(b), " (len %u)", n);
  s += b;
  return s;
}

void SetupCellBounds(const Cell& cell, const Bounds& cmdline) {
  g.bounds = cmdline;
  if (std::getenv("VX_FORCE_BOUNDS") == nullptr) {
    vxh::CellBounds(cell, g.tier, g.bounds);
  } else {
    // calibration: keep the command line's P but take the harness' S/T/flags
    Bounds b = cmdline;
    vxh::CellBounds(cell, g.tier, b);
    g.bounds.S = b.S;
    g.bounds.T = b.T;
    g.bounds.all_points = b.all_points;
    g.bounds.rand_choice = b.rand_choice;
  }
}

// Child: explores the cell depth-first starting from shm->path (empty unless resuming).
[[noreturn]] void ChildExplore(const Cell& cell) {
  Shm* s = g.shm;
  InstallHooks();
  gPor.on = !g.bounds.all_points;
  gPor.prune = g.use_cache;
  if (gPor.on && gPor.prune) {
    gPorTable = new std::unordered_map<std::uint64_t, PorEntry>();
    gPorTable->reserve(1 << 16);
  }
  g.path = s->path;
  g.path_len = &s->path_len;
  if (s->resume == 0) {
    s->path_len = 0;
  }
  // Warm-up: the first path of this process is executed twice, the first time without leak
  // accounting, so that lazily initialised statics of the library do not look like leaks.  It runs on
  // the real path buffer: if it is fatal, the supervisor sees the schedule that was in flight.
  {
    const std::uint32_t saved = s->path_len;
    g.warmup = true;
    RunExecution(cell);
    g.warmup = false;
    s->path_len = saved;
  }
  const double t0 = NowS();
  std::uint64_t since_clock = 0;
  for (;;) {
    RunExecution(cell);
    ++s->executions;
    s->events += g.nevents;
    s->transitions += s->path_len;
    if (s->path_len > s->max_depth) {
      s->max_depth = s->path_len;
    }
    if (g.nevents > s->max_events) {
      s->max_events = g.nevents;
    }
    if (g.trace_set.insert(g.trace_hash).second) {
      s->distinct_traces = g.trace_set.size();
      if (s->nsample_path < 3 && (s->nsample_path == 0 || CountPreemptions(s->path, s->path_len) > 0)) {
        std::snprintf(s->sample_path[s->nsample_path++], sizeof(s->sample_path[0]), "%s",
                      PathToString(s->path, s->path_len).c_str());
      }
    }
    std::uint64_t oh = 1469598103934665603ULL;
    for (char ch : g.outcome) {
      oh = (oh ^ static_cast<unsigned char>(ch)) * 0x100000001b3ULL;
    }
    // final partial-order fingerprints: the set must not depend on whether the state cache pruned
    if (gPor.on) {
      if (!gPor.ok) {
        ++s->finals_invalid;
      } else if (g.final_set.insert(gPor.fp).second) {
        s->distinct_finals = g.final_set.size();
        s->finals_xor ^= Mix64(gPor.fp);
        if (const char* dump = std::getenv("VX_DUMP_FINALS")) {
          if (FILE* df = std::fopen(dump, "a")) {
            std::string pj;
            for (std::uint32_t i = 0; i < s->path_len; ++i) {
              char pb[64];
              std::snprintf(pb, sizeof(pb), "%s[%u,%u,%u,%d,%u]", i ? "," : "", s->path[i].kind, s->path[i].n, s->path[i].chosen,
                            s->path[i].timer_alt, s->path[i].sig);
              pj += pb;
            }
            std::fprintf(df, "%016llx %s | {\"cell\":\"%s\",\"P\":%d,\"S\":%d,\"T\":%d,\"path\":[%s]}\n",
                         static_cast<unsigned long long>(gPor.fp), PathToString(s->path, s->path_len).c_str(), g.cell_id.c_str(),
                         g.bounds.P, g.bounds.S, g.bounds.T, pj.c_str());
            std::fclose(df);
          }
        }
      }
    }
    if (g.outcome_set.insert(oh).second) {
      s->distinct_outcomes = g.outcome_set.size();
      s->outcomes_xor ^= Mix64(oh);
      if (s->nsample_outcome < 6) {
        std::snprintf(s->sample_outcome[s->nsample_outcome++], sizeof(s->sample_outcome[0]), "%s", g.outcome.c_str());
      }
    }
    if (g.failed) {
      // confirm by replaying the very same path once before recording it
      char oracle[64];
      char text[700];
      std::snprintf(oracle, sizeof(oracle), "%s", g.fail_oracle);
      std::snprintf(text, sizeof(text), "%s", g.fail_text);
      const std::uint32_t len = s->path_len;
      RunExecution(cell);
      ++s->replay_checks;
      if (!g.failed || std::strcmp(g.fail_oracle, oracle) != 0 || s->path_len != len) {
        Machinery("violation %s did not reproduce on immediate replay (cell %s)", oracle, g.cell_id.c_str());
      }
      RecordViolation(oracle, text, false);
      ++s->failing_execs;
      if (s->failing_execs >= 3000) {
        std::snprintf(s->cap_reason, sizeof(s->cap_reason), "3000 failing executions");
        s->state = 2;
        _exit(0);
      }
    }
    s->por_hits = gPor.hits;
    s->por_states = gPorTable != nullptr ? gPorTable->size() : 0;
    if (!Backtrack(s->path, s->path_len, g.fixed_len, g.bounds)) {
      s->state = 1;
      _exit(0);
    }
    if (++since_clock >= 128) {
      since_clock = 0;
      if ((g.deadline_s > 0 && NowS() > g.deadline_s) || (g.max_exec != 0 && s->executions >= g.max_exec)) {
        std::snprintf(s->cap_reason, sizeof(s->cap_reason), "%s",
                      g.max_exec != 0 && s->executions >= g.max_exec ? "max executions" : "deadline");
        s->state = 2;
        _exit(0);
      }
    }
    (void)t0;
  }
}

// Child: replays shm->path once (used to confirm a fatal outcome).  Exit status is the verdict.
[[noreturn]] void ChildReplayOnce(const Cell& cell) {
  Shm* s = g.shm;
  InstallHooks();
  g.path = s->path;
  g.path_len = &s->path_len;
  g.warmup = true;  // leak checks off: only the fatal outcome matters
  g.no_record = true;
  RunExecution(cell);
  _exit(0);
}

std::string JsonEscape(const std::string& in) {
  std::string out;
  for (unsigned char c : in) {
    if (c == '"' || c == '\\') {
      out += '\\';
      out += static_cast<char>(c);
    } else if (c == '\n') {
      out += "\\n";
    } else if (c < 0x20 || c >= 0x7f) {
      out += '?';
    } else {
      out += static_cast<char>(c);
    }
  }
  return out;
}

std::string ReadTail(const std::string& path, std::size_t max) {
  std::string out;
  FILE* f = std::fopen(path.c_str(), "r");
  if (f == nullptr) {
    return out;
  }
  std::fseek(f, 0, SEEK_END);
  long sz = std::ftell(f);
  long from = sz > static_cast<long>(max) ? sz - static_cast<long>(max) : 0;
  std::fseek(f, from, SEEK_SET);
  out.resize(static_cast<std::size_t>(sz - from));
  const std::size_t got = std::fread(out.data(), 1, out.size(), f);
  out.resize(got);
  std::fclose(f);
  return out;
}

// Picks the most informative line of a sanitizer / terminate report.
std::string Summarize(const std::string& err) {
  const char* keys[] = {"ERROR: AddressSanitizer", "SUMMARY: AddressSanitizer", "terminate called", "what():",
                        "MACHINERY-ERROR", "Assertion"};
  std::string out;
  for (const char* k : keys) {
    auto p = err.find(k);
    if (p != std::string::npos) {
      auto e = err.find('\n', p);
      out += err.substr(p, e == std::string::npos ? std::string::npos : e - p);
      out += " | ";
      if (out.size() > 400) {
        break;
      }
    }
  }
  if (out.empty()) {
    out = err.substr(err.size() > 300 ? err.size() - 300 : 0);
  }
  return out;
}

std::string AsanKind(const std::string& err) {
  auto p = err.find("ERROR: AddressSanitizer: ");
  if (p == std::string::npos) {
    return "";
  }
  p += std::strlen("ERROR: AddressSanitizer: ");
  auto e = err.find_first_of(" \n", p);
  return err.substr(p, e - p);
}

struct Options {
  std::string out;
  std::string replay;
  std::string stderr_file;
  std::vector<std::string> cells;
  Bounds bounds;
  int tier = 0;
  bool list = false;
  double deadline_s = 0;  // per-process wall budget
  std::uint64_t max_exec = 0;
  bool trace = false;
  bool cache = true;
};

void AppendPathJson(std::string& js, const Dec* p, std::uint32_t n) {
  js += "[";
  for (std::uint32_t i = 0; i < n; ++i) {
    char b[96];
    std::snprintf(b, sizeof(b), "%s[%u,%u,%u,%d,%u]", i == 0 ? "" : ",", p[i].kind, p[i].n, p[i].chosen,
                  p[i].timer_alt, p[i].sig);
    js += b;
  }
  js += "]";
}

// Waits for the child.  It is killed (timed_out = true) when the hard deadline passes or when the
// progress counter has not moved for 120 s (a single execution that does not terminate).
int WaitChild(pid_t pid, double hard_deadline, volatile std::uint64_t* progress, bool& timed_out) {
  int status = 0;
  timed_out = false;
  std::uint64_t last = progress != nullptr ? *progress : 0;
  double last_change = NowS();
  unsigned sleep_us = 200;
  for (;;) {
    pid_t r = waitpid(pid, &status, WNOHANG);
    if (r == pid) {
      return status;
    }
    if (r < 0 && errno != EINTR) {
      return -1;
    }
    const double now = NowS();
    if (progress != nullptr && *progress != last) {
      last = *progress;
      last_change = now;
    }
    if ((hard_deadline > 0 && now > hard_deadline) || (progress != nullptr && now - last_change > 120)) {
      kill(pid, SIGKILL);
      waitpid(pid, &status, 0);
      timed_out = true;
      return status;
    }
    usleep(sleep_us);
    if (sleep_us < 5000) {
      sleep_us *= 2;
    }
  }
}

std::string StatusText(int status) {
  char b[64];
  if (WIFSIGNALED(status)) {
    std::snprintf(b, sizeof(b), "signal %d (%s)", WTERMSIG(status), strsignal(WTERMSIG(status)));
  } else {
    std::snprintf(b, sizeof(b), "exit code %d", WEXITSTATUS(status));
  }
  return b;
}

void RedirectStderr(const std::string& file) {
  if (file.empty()) {
    return;
  }
  int fd = open(file.c_str(), O_WRONLY | O_CREAT | O_TRUNC, 0644);
  if (fd >= 0) {
    dup2(fd, 2);
    close(fd);
  }
}

// Supervises the exploration of one cell; appends the cell's JSON object to `js`.
// Returns 0 clean, 1 violations, 2 machinery error.
int Supervise(const Options& opt, const std::string& cell_id, std::string& js, double process_deadline) {
  Cell cell{cell_id};
  g.cell_id = cell_id;
  SetupCellBounds(cell, opt.bounds);
  auto* s = static_cast<Shm*>(mmap(nullptr, sizeof(Shm), PROT_READ | PROT_WRITE, MAP_SHARED | MAP_ANONYMOUS, -1, 0));
  if (s == MAP_FAILED) {
    std::perror("mmap");
    return 2;
  }
  std::memset(static_cast<void*>(s), 0, sizeof(Shm));
  g.shm = s;
  g.deadline_s = process_deadline;
  g.max_exec = opt.max_exec;
  g.use_cache = opt.cache;
  const double t0 = NowS();
  int machinery = 0;
  std::string machinery_text;
  int forks = 0;
  for (;;) {
    ++forks;
    s->state = 0;
    s->fatal_recorded = 0;
    pid_t pid = fork();
    if (pid == 0) {
      RedirectStderr(opt.stderr_file);
      ChildExplore(cell);
    }
    bool timed_out = false;
    const double hard = process_deadline > 0 ? process_deadline + 60 : 0;
    int status = WaitChild(pid, hard, &s->executions, timed_out);
    if (timed_out) {
      // The execution in flight did not finish in time.  Before calling it a hang, run that one schedule alone in
      // a fresh child with a generous limit: on a loaded machine a slow execution is not a hang.
      const std::uint32_t keep_len = s->path_len;
      static Dec keep_hang[kMaxDepth];
      std::memcpy(keep_hang, s->path, keep_len * sizeof(Dec));
      pid_t rp = fork();
      if (rp == 0) {
        RedirectStderr(opt.stderr_file + ".replay");
        ChildReplayOnce(cell);
      }
      bool rt = false;
      WaitChild(rp, NowS() + 600, nullptr, rt);
      ++s->replay_checks;
      std::memcpy(s->path, keep_hang, keep_len * sizeof(Dec));
      s->path_len = keep_len;
      g.path = s->path;
      g.path_len = &s->path_len;
      s->state = 2;
      if (rt) {
        RecordViolation("hang", "the execution in flight did not terminate within the time limit, nor when run alone for 600 s", true);
        std::snprintf(s->cap_reason, sizeof(s->cap_reason), "hang");
      } else {
        std::snprintf(s->cap_reason, sizeof(s->cap_reason), "stalled (schedule terminates when run alone)");
      }
      break;
    }
    if (WIFEXITED(status) && WEXITSTATUS(status) == 0 && s->state != 0) {
      break;
    }
    if (WIFEXITED(status) && WEXITSTATUS(status) == 92) {
      machinery = 1;
      machinery_text = Summarize(ReadTail(opt.stderr_file, 4000));
      break;
    }
    // fatal outcome of the execution in flight (path = s->path[0..path_len))
    g.path = s->path;
    g.path_len = &s->path_len;
    std::string err = ReadTail(opt.stderr_file, 6000);
    char oracle[64];
    std::string text;
    if (s->fatal_recorded == 0) {
      std::string kind = AsanKind(err);
      if (!kind.empty()) {
        std::snprintf(oracle, sizeof(oracle), "asan:%s", kind.c_str());
      } else if (WIFSIGNALED(status)) {
        std::snprintf(oracle, sizeof(oracle), "crash:signal-%d", WTERMSIG(status));
      } else {
        std::snprintf(oracle, sizeof(oracle), "crash:exit-%d", WEXITSTATUS(status));
      }
      text = StatusText(status) + ": " + Summarize(err);
    }
    // confirm: replay the same path in a fresh child, it must die the same way
    {
      const std::uint32_t keep_len = s->path_len;
      static Dec keep[kMaxDepth];
      std::memcpy(keep, s->path, keep_len * sizeof(Dec));
      pid_t rp = fork();
      if (rp == 0) {
        RedirectStderr(opt.stderr_file + ".replay");
        ChildReplayOnce(cell);
      }
      bool rt = false;
      int rstatus = WaitChild(rp, NowS() + 120, nullptr, rt);
      ++s->replay_checks;
      const bool same = !rt && ((WIFSIGNALED(status) && WIFSIGNALED(rstatus) && WTERMSIG(status) == WTERMSIG(rstatus)) ||
                                (WIFEXITED(status) && WIFEXITED(rstatus) && WEXITSTATUS(status) == WEXITSTATUS(rstatus)));
      // restore the path (the replay may have extended it)
      std::memcpy(s->path, keep, keep_len * sizeof(Dec));
      s->path_len = keep_len;
      if (!same) {
        machinery = 1;
        machinery_text = "fatal outcome (" + StatusText(status) + ") did not reproduce on replay (" +
                         StatusText(rstatus) + "): " + Summarize(err);
        break;
      }
    }
    if (s->fatal_recorded == 0) {
      RecordViolation(oracle, text.c_str(), true);
      ++s->failing_execs;
    }
    ++s->executions;
    if (s->failing_execs >= 200 && forks >= 200) {
      s->state = 2;
      std::snprintf(s->cap_reason, sizeof(s->cap_reason), "200 fatal executions");
      break;
    }
    if (process_deadline > 0 && NowS() > process_deadline) {
      s->state = 2;
      std::snprintf(s->cap_reason, sizeof(s->cap_reason), "deadline");
      break;
    }
    if (!Backtrack(s->path, s->path_len, 0, g.bounds)) {
      s->state = 1;
      break;
    }
    s->resume = 1;
  }
  const double wall = NowS() - t0;
  char b[1200];
  std::snprintf(b, sizeof(b),
                "{\"cell\":\"%s\",\"bounds\":{\"P\":%d,\"S\":%d,\"T\":%d,\"all_points\":%s,\"rand_choice\":%s},"
                "\"executions\":%llu,\"nodes\":%llu,\"transitions\":%llu,\"events\":%llu,\"distinct_traces\":%llu,"
                "\"distinct_outcomes\":%llu,\"max_depth\":%llu,\"max_events\":%llu,\"failing_executions\":%llu,"
                "\"replay_checks\":%llu,\"hb_accesses\":%llu,\"hb_sync\":%llu,\"cache_hits\":%llu,\"cache_states\":%llu,\"exhaustive\":%s,\"cap\":\"%s\","
                "\"forks\":%d,\"wall_s\":%.3f,",
                JsonEscape(cell_id).c_str(), g.bounds.P, g.bounds.S, g.bounds.T, g.bounds.all_points ? "true" : "false",
                g.bounds.rand_choice ? "true" : "false", static_cast<unsigned long long>(s->executions),
                static_cast<unsigned long long>(s->nodes), static_cast<unsigned long long>(s->transitions),
                static_cast<unsigned long long>(s->events), static_cast<unsigned long long>(s->distinct_traces),
                static_cast<unsigned long long>(s->distinct_outcomes), static_cast<unsigned long long>(s->max_depth),
                static_cast<unsigned long long>(s->max_events), static_cast<unsigned long long>(s->failing_execs),
                static_cast<unsigned long long>(s->replay_checks), static_cast<unsigned long long>(s->hb_accesses),
                static_cast<unsigned long long>(s->hb_sync), static_cast<unsigned long long>(s->por_hits),
                static_cast<unsigned long long>(s->por_states), (s->state == 1 && machinery == 0) ? "true" : "false",
                JsonEscape(s->cap_reason).c_str(), forks, wall);
  js += b;
  std::snprintf(b, sizeof(b), "\"cache\":%s,\"distinct_finals\":%llu,\"finals_xor\":\"%016llx\",\"outcomes_xor\":\"%016llx\",\"finals_invalid\":%llu,",
                g.use_cache && !g.bounds.all_points ? "true" : "false", static_cast<unsigned long long>(s->distinct_finals),
                static_cast<unsigned long long>(s->finals_xor), static_cast<unsigned long long>(s->outcomes_xor),
                static_cast<unsigned long long>(s->finals_invalid));
  js += b;
  js += "\"sample_outcomes\":[";
  for (std::uint32_t i = 0; i < s->nsample_outcome; ++i) {
    js += (i ? ",\"" : "\"") + JsonEscape(s->sample_outcome[i]) + "\"";
  }
  js += "],\"sample_schedules\":[";
  for (std::uint32_t i = 0; i < s->nsample_path; ++i) {
    js += (i ? ",\"" : "\"") + JsonEscape(s->sample_path[i]) + "\"";
  }
  js += "],\"machinery_error\":";
  js += machinery ? "\"" + JsonEscape(machinery_text) + "\"" : "null";
  js += ",\"violations\":[";
  for (std::uint32_t i = 0; i < s->nviol; ++i) {
    const Viol& v = s->viol[i];
    std::snprintf(b, sizeof(b), "%s{\"oracle\":\"%s\",\"text\":\"%s\",\"count\":%llu,\"preemptions\":%d,\"fatal\":%s,\"path\":",
                  i ? "," : "", JsonEscape(v.oracle).c_str(), JsonEscape(v.text).c_str(),
                  static_cast<unsigned long long>(v.count), v.preemptions, v.fatal ? "true" : "false");
    js += b;
    AppendPathJson(js, v.path, v.path_len);
    js += "}";
  }
  js += "]}";
  const int rc = machinery ? 2 : (s->nviol != 0 ? 1 : 0);
  munmap(static_cast<void*>(s), sizeof(Shm));
  g.shm = nullptr;
  return rc;
}

// ---- replay -------------------------------------------------------------------------------------
const char* KindName(int k) {
  static const char* const names[] = {"load", "store", "rmw", "cas-ok", "cas-fail", "fence",
                                      "lock", "unlock", "spawn", "join", "other"};
  if (k >= 0 && k <= 10) {
    return names[k];
  }
  return "?";
}
const char* OrderName(int o) {
  static const char* const names[] = {"relaxed", "consume", "acquire", "release", "acq_rel", "seq_cst"};
  return o >= 0 && o <= 5 ? names[o] : "-";
}

bool ParseReplay(const std::string& file, std::string& cell, Bounds& b, std::vector<Dec>& path) {
  FILE* f = std::fopen(file.c_str(), "r");
  if (f == nullptr) {
    return false;
  }
  std::string text;
  char buf[4096];
  std::size_t n;
  while ((n = std::fread(buf, 1, sizeof(buf), f)) > 0) {
    text.append(buf, n);
  }
  std::fclose(f);
  auto str_field = [&](const char* key) -> std::string {
    std::string k = std::string("\"") + key + "\"";
    auto p = text.find(k);
    if (p == std::string::npos) {
      return "";
    }
    p = text.find(':', p);
    p = text.find('"', p);
    auto e = text.find('"', p + 1);
    return text.substr(p + 1, e - p - 1);
  };
  auto int_field = [&](const char* key, int def) -> int {
    std::string k = std::string("\"") + key + "\"";
    auto p = text.find(k);
    if (p == std::string::npos) {
      return def;
    }
    p = text.find(':', p);
    return std::atoi(text.c_str() + p + 1);
  };
  auto bool_field = [&](const char* key) -> bool {
    std::string k = std::string("\"") + key + "\"";
    auto p = text.find(k);
    if (p == std::string::npos) {
      return false;
    }
    p = text.find(':', p);
    while (text[++p] == ' ') {
    }
    return text.compare(p, 4, "true") == 0;
  };
  cell = str_field("cell");
  b.P = int_field("P", 99);
  b.S = int_field("S", 99);
  b.T = int_field("T", 99);
  b.all_points = bool_field("all_points");
  b.rand_choice = bool_field("rand_choice");
  auto p = text.find("\"path\"");
  if (p == std::string::npos) {
    return false;
  }
  p = text.find('[', p);
  ++p;
  while (p < text.size()) {
    while (p < text.size() && (text[p] == ' ' || text[p] == ',' || text[p] == '\n')) {
      ++p;
    }
    if (p >= text.size() || text[p] == ']') {
      break;
    }
    if (text[p] != '[') {
      return false;
    }
    unsigned kind, nn, chosen, sig;
    int ta;
    if (std::sscanf(text.c_str() + p, "[%u,%u,%u,%d,%u]", &kind, &nn, &chosen, &ta, &sig) != 5) {
      return false;
    }
    path.push_back({static_cast<std::uint8_t>(kind), static_cast<std::uint8_t>(nn), static_cast<std::uint8_t>(chosen),
                    static_cast<std::int8_t>(ta), sig});
    p = text.find(']', p) + 1;
  }
  return true;
}

int Replay(const Options& opt) {
  std::string cell_id;
  Bounds b;
  std::vector<Dec> path;
  if (!ParseReplay(opt.replay, cell_id, b, path)) {
    std::fprintf(stderr, "cannot parse replay file %s\n", opt.replay.c_str());
    return 2;
  }
  Cell cell{cell_id};
  g.cell_id = cell_id;
  g.bounds = b;
  g.tracing = true;
  static Dec buf[kMaxDepth];
  static std::uint32_t len;
  len = static_cast<std::uint32_t>(path.size());
  std::copy(path.begin(), path.end(), buf);
  g.path = buf;
  g.path_len = &len;
  InstallHooks();
  gPor.on = !b.all_points;
  gPor.prune = false;
  std::printf("replay harness=%s cell=%s bounds P=%d S=%d T=%d decisions=%u\n", vxh::kName, cell_id.c_str(), b.P, b.S,
              b.T, len);
  std::fflush(stdout);
  g.warmup = true;
  {
    // warm-up on the default path so that leak accounting matches the search
    static Dec wbuf[kMaxDepth];
    static std::uint32_t wlen = 0;
    g.path = wbuf;
    g.path_len = &wlen;
    g.tracing = false;
    RunExecution(cell);
    g.tracing = true;
    g.path = buf;
    g.path_len = &len;
  }
  g.warmup = false;
  g.trace.clear();
  RunExecution(cell);
  for (const auto& e : g.trace) {
    if (e.kind >= 100) {
      std::printf("  [f%d] %s\n", e.fiber, e.text.c_str());
    } else if (e.kind <= yaclib::verif::kCasFail) {
      std::printf("  [f%d] %-8s obj#%d %-8s %#llx -> %#llx\n", e.fiber, KindName(e.kind), e.obj, OrderName(e.order),
                  e.before, e.after);
    } else if (e.kind == yaclib::verif::kFence) {
      std::printf("  [f%d] fence    %s\n", e.fiber, OrderName(e.order));
    } else {
      std::printf("  [f%d] %-8s obj#%d\n", e.fiber, KindName(e.kind), e.obj);
    }
  }
  std::printf("outcome: %s\n", g.outcome.c_str());
  if (g.failed) {
    std::printf("RESULT violation oracle=%s : %s\n", g.fail_oracle, g.fail_text);
    return 1;
  }
  std::printf("RESULT clean\n");
  return 0;
}

}  // namespace
}  // namespace vx

// ------------------------------------------------------------------------------------------------
// operator new / delete: allocation ledger
// ------------------------------------------------------------------------------------------------
namespace {
inline void* VxAlloc(std::size_t n, std::size_t align) {
  void* p = nullptr;
  if (align <= alignof(std::max_align_t)) {
    p = std::malloc(n != 0 ? n : 1);
  } else {
    if (posix_memalign(&p, align, n != 0 ? n : 1) != 0) {
      p = nullptr;
    }
  }
  if (p != nullptr) {
    if (vx::g.counting && vx::g.in_engine == 0) {
      ++vx::g.alloc_count;
      vx::LiveInsert(p);
    }
    vx::hb::OnAlloc(p, n);
    if (vx::g.counting && vx::g.in_engine == 0) {
      vx::PorOnAlloc(p, n);
    }
  }
  return p;
}
inline void VxFree(void* p) {
  if (p == nullptr) {
    return;
  }
  if (vx::gLiveCount != 0) {
    vx::LiveErase(p);
  }
  vx::hb::OnFree(p);
  vx::PorOnFree(p);
  std::free(p);
}
}  // namespace

// Exception objects come from __cxa_allocate_exception (malloc), not from operator new; the address of a freed one is
// reused by the next, so the happens-before shadow of that memory must be forgotten like that of a new block
// (linked with -Wl,--wrap=__cxa_allocate_exception).
extern "C" void* __real___cxa_allocate_exception(std::size_t n) noexcept;
extern "C" void* __wrap___cxa_allocate_exception(std::size_t n) noexcept {
  void* p = __real___cxa_allocate_exception(n);
  if (p != nullptr) {
    vx::hb::OnRawAlloc(p, n);
    if (vx::g.tracing) {
      std::printf("     . exception object allocated at %p (%zu bytes)\n", p, n);
    }
  }
  return p;
}

void* operator new(std::size_t n) {
  void* p = VxAlloc(n, 0);
  if (p == nullptr) {
    throw std::bad_alloc{};
  }
  return p;
}
void* operator new[](std::size_t n) {
  void* p = VxAlloc(n, 0);
  if (p == nullptr) {
    throw std::bad_alloc{};
  }
  return p;
}
void* operator new(std::size_t n, const std::nothrow_t&) noexcept {
  return VxAlloc(n, 0);
}
void* operator new[](std::size_t n, const std::nothrow_t&) noexcept {
  return VxAlloc(n, 0);
}
void* operator new(std::size_t n, std::align_val_t a) {
  void* p = VxAlloc(n, static_cast<std::size_t>(a));
  if (p == nullptr) {
    throw std::bad_alloc{};
  }
  return p;
}
void* operator new[](std::size_t n, std::align_val_t a) {
  void* p = VxAlloc(n, static_cast<std::size_t>(a));
  if (p == nullptr) {
    throw std::bad_alloc{};
  }
  return p;
}
void operator delete(void* p) noexcept {
  VxFree(p);
}
void operator delete[](void* p) noexcept {
  VxFree(p);
}
void operator delete(void* p, std::size_t) noexcept {
  VxFree(p);
}
void operator delete[](void* p, std::size_t) noexcept {
  VxFree(p);
}
void operator delete(void* p, std::align_val_t) noexcept {
  VxFree(p);
}
void operator delete[](void* p, std::align_val_t) noexcept {
  VxFree(p);
}
void operator delete(void* p, std::size_t, std::align_val_t) noexcept {
  VxFree(p);
}
void operator delete[](void* p, std::size_t, std::align_val_t) noexcept {
  VxFree(p);
}
void operator delete(void* p, const std::nothrow_t&) noexcept {
  VxFree(p);
}
void operator delete[](void* p, const std::nothrow_t&) noexcept {
  VxFree(p);
}

// ------------------------------------------------------------------------------------------------
// main
// ------------------------------------------------------------------------------------------------
int main(int argc, char** argv) {
  using namespace vx;
  Options opt;
  for (int i = 1; i < argc; ++i) {
    std::string a = argv[i];
    auto next = [&]() -> std::string {
      if (i + 1 >= argc) {
        std::fprintf(stderr, "missing value for %s\n", a.c_str());
        std::exit(2);
      }
      return argv[++i];
    };
    if (a == "--list-cells") {
      opt.list = true;
    } else if (a == "--tier") {
      opt.tier = next() == "thorough" ? 1 : 0;
    } else if (a == "--cell") {
      opt.cells.push_back(next());
    } else if (a == "--cells-file") {
      FILE* f = std::fopen(next().c_str(), "r");
      if (f == nullptr) {
        std::perror("cells-file");
        return 2;
      }
      char line[1024];
      while (std::fgets(line, sizeof(line), f) != nullptr) {
        std::string s = line;
        while (!s.empty() && (s.back() == '\n' || s.back() == '\r')) {
          s.pop_back();
        }
        if (!s.empty()) {
          opt.cells.push_back(s);
        }
      }
      std::fclose(f);
    } else if (a == "--P") {
      opt.bounds.P = std::atoi(next().c_str());
    } else if (a == "--S") {
      opt.bounds.S = std::atoi(next().c_str());
    } else if (a == "--T") {
      opt.bounds.T = std::atoi(next().c_str());
    } else if (a == "--all-points") {
      opt.bounds.all_points = true;
    } else if (a == "--rand-choice") {
      opt.bounds.rand_choice = true;
    } else if (a == "--out") {
      opt.out = next();
    } else if (a == "--replay") {
      opt.replay = next();
    } else if (a == "--deadline") {
      opt.deadline_s = std::atof(next().c_str());
    } else if (a == "--no-cache") {
      opt.cache = false;
    } else if (a == "--max-exec") {
      opt.max_exec = std::strtoull(next().c_str(), nullptr, 10);
    } else {
      std::fprintf(stderr, "unknown argument %s\n", a.c_str());
      return 2;
    }
  }
  g.tier = opt.tier;
  if (opt.list) {
    for (const auto& c : vxh::Cells(opt.tier)) {
      std::printf("%s\n", c.c_str());
    }
    return 0;
  }
  if (!opt.replay.empty()) {
    return Replay(opt);
  }
  if (opt.cells.empty() || opt.out.empty()) {
    std::fprintf(stderr, "usage: %s --list-cells [--tier T] | --cell ID.. --out FILE [--P n --S n --T n] | --replay FILE\n",
                 argv[0]);
    return 2;
  }
  opt.stderr_file = opt.out + ".stderr";
  const double process_deadline = opt.deadline_s > 0 ? NowS() + opt.deadline_s : 0;
  std::string js = "{\"harness\":\"";
  js += vxh::kName;
  js += "\",\"property\":\"";
  js += vxh::kProperty;
  js += "\",\"hb\":";
  js += hb::Enabled() ? "true" : "false";
  js += ",\"cells\":[\n";
  int rc = 0;
  bool first = true;
  for (const auto& c : opt.cells) {
    if (!first) {
      js += ",\n";
    }
    first = false;
    if (process_deadline > 0 && NowS() > process_deadline) {
      js += "{\"cell\":\"" + JsonEscape(c) + "\",\"skipped\":\"deadline\",\"exhaustive\":false,\"executions\":0,\"violations\":[]}";
      continue;
    }
    const int r = Supervise(opt, c, js, process_deadline);
    rc = std::max(rc, r);
  }
  js += "\n]}\n";
  FILE* f = std::fopen(opt.out.c_str(), "w");
  if (f == nullptr) {
    std::perror("out");
    return 2;
  }
  std::fwrite(js.data(), 1, js.size(), f);
  std::fclose(f);
  unlink(opt.stderr_file.c_str());
  unlink((opt.stderr_file + ".replay").c_str());
  return rc;
}
