// Oracle helpers shared by the harnesses: tracked payloads (ledger keyed by address).
#pragma once

#include "vx.hpp"

#include <utility>

namespace vx {

void LedgerCtor(const void* p, int id);
void LedgerMovedFrom(const void* p);
void LedgerDtor(const void* p, int id);
int LedgerCheck(const void* p);  // 0 ok, 1 not alive, 2 moved-from
int LedgerAlive();

// A payload whose whole life is recorded: construction, copy, move, read, destruction.
// Reading a dead or moved-from object, destroying twice, or leaving one alive at quiescence are
// violations (oracle ids "ledger:*").
class Tracked {
 public:
  explicit Tracked(int id) : _id{id} {
    LedgerCtor(this, _id);
  }
  Tracked(const Tracked& o) : _id{o.Read("copy-from")} {
    LedgerCtor(this, _id);
  }
  Tracked(Tracked&& o) noexcept : _id{o.Read("move-from")} {
    LedgerCtor(this, _id);
    LedgerMovedFrom(&o);
    o.WriteSource();
  }
  Tracked& operator=(const Tracked& o) {
    _id = o.Read("copy-assign-from");
    Revive();
    return *this;
  }
  Tracked& operator=(Tracked&& o) noexcept {
    _id = o.Read("move-assign-from");
    Revive();
    if (&o != this) {
      LedgerMovedFrom(&o);
      o.WriteSource();
    }
    return *this;
  }
  ~Tracked() {
    LedgerDtor(this, _id);
    _id = -777;
  }

  // The observable read: the object must be alive and hold a value.
  int Get() const {
    return Read("read");
  }
  // Raw id without any check (for messages).
  int Raw() const {
    return _id;
  }
  friend bool operator==(const Tracked& a, const Tracked& b) {
    return a.Get() == b.Get();
  }

 private:
  int Read(const char* what) const {
    const int st = LedgerCheck(this);
    if (st == 1) {
      Fail("ledger:use-after-destroy", "%s of tracked object at %p (raw id %d) that is not alive", what,
           static_cast<const void*>(this), _id);
    } else if (st == 2) {
      Fail("ledger:use-after-move", "%s of moved-from tracked object %d", what, _id);
    }
    return _id;
  }
  // Like every real movable type (string, vector, unique_ptr, exception_ptr) a move modifies its source: a plain
  // write the happens-before monitor sees, so "moved out while somebody else still reads" is a race for values too.
  void WriteSource() noexcept {
    *const_cast<volatile int*>(&_id) = _id;
  }
  void Revive() {
    // assignment gives a moved-from object a value again
    if (LedgerCheck(this) == 2) {
      LedgerDtor(this, _id);
      LedgerCtor(this, _id);
    }
  }
  int _id;
};

// Move-only variant.
class TrackedMO {
 public:
  explicit TrackedMO(int id) : _t{id} {
  }
  TrackedMO(TrackedMO&&) noexcept = default;
  TrackedMO& operator=(TrackedMO&&) noexcept = default;
  TrackedMO(const TrackedMO&) = delete;
  TrackedMO& operator=(const TrackedMO&) = delete;
  int Get() const {
    return _t.Get();
  }

 private:
  Tracked _t;
};

}  // namespace vx
