#!/bin/bash
# run every check of one tier on /repo's working tree, one after the other; summary on stdout
tier=${1:-quick}
cd "$(dirname "$(readlink -f "$0")")"
V=$(pwd)
mkdir -p $V/build
rc_all=0
for p in C01 C02 C03 C04 C05 C06 C07 C08 C09 C10 C11 C12 C13 C14 C15 C16 C17 C18 C19 C20; do
  s=$(date +%s)
  python3 run.py check $p --tier $tier > $V/build/log-$tier-$p.txt 2>&1
  rc=$?
  e=$(( $(date +%s) - s ))
  if [ "$tier" = thorough ]; then mkdir -p $V/thorough_runs; cp $V/evidence/$p.json $V/thorough_runs/$p.json; fi
  echo "$p rc=$rc ${e}s $(grep -c -E '^(VIOLATION|KNOWN-FINDING)' $V/build/log-$tier-$p.txt) alarm-lines"
  [ $rc -ne 0 ] && rc_all=1
done
exit $rc_all
