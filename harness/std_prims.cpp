// Harness `std_prims` (C18): yaclib_std locks, condition variables, threads, sleeps and thread-local
// pointers under the FIBER backend, checked against a reference model of the std contracts.
// Every injection point is a decision (all-points mode), the SharedMutex::unlock coin is a choice.
//
// Lock cells: k fibers, each running 1..2 "sections" on ONE primitive.  A section is an acquisition
// attempt (lock / try_lock / try_lock_for and the shared forms); if it succeeds the fiber stays inside
// across a scheduling point and releases.  Only sequences that respect the std preconditions exist.
#include "common.hpp"

#include <yaclib_std/chrono>
#include <yaclib_std/condition_variable>
#include <yaclib_std/mutex>
#include <yaclib_std/shared_mutex>
#include <yaclib_std/thread>
#include <yaclib_std/thread_local>

namespace vxh {

const char* const kName = "std_prims";
const char* const kProperty = "C18";

namespace {

constexpr std::uint64_t kHour = 3600ULL * 1000000000ULL;

// ---- reference model of one lock ----
// "inner" counts: a fiber is counted from after its acquisition returned until before it calls the
// release (a subset of the time it really holds the lock): two incompatible inner holders = violation.
// "outer" counts: from before the acquisition call until after the release returned (a superset):
// a failed try is justified only if an incompatible outer holder existed at some moment of the call.
struct Model {
  vx::Shared in_excl{11}, in_shared{12}, out_excl{13}, out_shared{14};
  vx::Shared out_begin_excl{15}, out_begin_shared{16};  // how many outer intervals have begun so far
  int owner = -1;  // fiber inside exclusively (inner)
};

template <typename M>
constexpr bool kHasShared = false;
template <>
constexpr bool kHasShared<yaclib_std::shared_mutex> = true;
template <>
constexpr bool kHasShared<yaclib_std::shared_timed_mutex> = true;
template <typename M>
constexpr bool kHasTimed = false;
template <>
constexpr bool kHasTimed<yaclib_std::timed_mutex> = true;
template <>
constexpr bool kHasTimed<yaclib_std::recursive_timed_mutex> = true;
template <>
constexpr bool kHasTimed<yaclib_std::shared_timed_mutex> = true;
template <typename M>
constexpr bool kRecursive = false;
template <>
constexpr bool kRecursive<yaclib_std::recursive_mutex> = true;
template <>
constexpr bool kRecursive<yaclib_std::recursive_timed_mutex> = true;

// One acquisition attempt + critical section + release.  op: L lock, T try_lock, F try_lock_for,
// S lock_shared, s try_lock_shared, f try_lock_shared_for; depth: recursion depth already held by this fiber.
template <typename M>
void Section(M& m, Model& md, char op, int self, int depth, const std::string& rest);

template <typename M>
void RunOps(M& m, Model& md, const std::string& ops, int self, int depth) {
  if (ops.empty()) {
    return;
  }
  Section(m, md, ops[0], self, depth, ops.substr(1));
}

template <typename M>
void Section(M& m, Model& md, char op, int self, int depth, const std::string& rest) {
  const bool shared = op == 'S' || op == 's' || op == 'f';
  const bool blocking = op == 'L' || op == 'S';
  const bool timed = op == 'F' || op == 'f';
  // nested sections are written with a leading '(' : "(XY" = acquire X, then inside it run Y, release
  // ---- outer interval begins ----
  const int excl_seen_before = md.out_begin_excl.Get();
  const int shared_seen_before = md.out_begin_shared.Get();
  const bool incompatible_at_start = shared ? (md.out_excl.Get() > 0) : (md.out_excl.Get() + md.out_shared.Get() > 0);
  if (shared) {
    md.out_shared.Add(1);
    md.out_begin_shared.Add(1);
  } else if (depth == 0) {
    md.out_excl.Add(1);
    md.out_begin_excl.Add(1);
  }
  const std::uint64_t deadline = vx::VirtualNow() + kHour;
  bool got = true;
  switch (op) {
    case 'L':
      m.lock();
      break;
    case 'T':
      got = m.try_lock();
      break;
    case 'F':
      if constexpr (kHasTimed<M>) {
        got = m.try_lock_for(std::chrono::hours{1});
      }
      break;
    case 'S':
      if constexpr (kHasShared<M>) {
        m.lock_shared();
      }
      break;
    case 's':
      if constexpr (kHasShared<M>) {
        got = m.try_lock_shared();
      }
      break;
    case 'f':
      if constexpr (kHasShared<M> && kHasTimed<M>) {
        got = m.try_lock_shared_for(std::chrono::hours{1});
      }
      break;
    default:
      break;
  }
  if (!got) {
    // failure must be justified: an incompatible holder (or candidate holder) existed during the call,
    // or the (virtual) deadline passed
    const bool others_began = shared ? md.out_begin_excl.Get() != excl_seen_before
                                     : (md.out_begin_excl.Get() != excl_seen_before + (depth == 0 ? 1 : 0) ||
                                        md.out_begin_shared.Get() != shared_seen_before);
    const bool deadline_passed = timed && vx::VirtualNow() >= deadline;
    VX_EXPECT(!blocking, "lock-returns-locked", "blocking acquisition reported failure");
    if (timed) {
      VX_EXPECT(deadline_passed || incompatible_at_start || others_began, "failure-justified",
                "fiber %d: timed %s acquisition failed although the lock was compatible all the time and the deadline has not passed",
                self, shared ? "shared" : "exclusive");
      VX_EXPECT(deadline_passed, "timeout-only-after-deadline",
                "fiber %d: timed acquisition gave up at virtual time %llu, before its deadline %llu", self,
                static_cast<unsigned long long>(vx::VirtualNow()), static_cast<unsigned long long>(deadline));
    } else {
      VX_EXPECT(incompatible_at_start || others_began, "failure-justified",
                "fiber %d: try_%s failed although no other fiber held or was acquiring the lock incompatibly", self,
                shared ? "lock_shared" : "lock");
      if (kRecursive<M> && depth > 0) {
        VX_EXPECT(false, "recursive-owner-relock", "fiber %d: try_lock failed on a recursive mutex it already owns", self);
      }
    }
    if (shared) {
      md.out_shared.Add(-1);
    } else if (depth == 0) {
      md.out_excl.Add(-1);
    }
    vx::Outcome("%d%c- ", self, op);
    // a nested part "(...)" belongs to the acquisition that failed: skipped
    std::string after = rest;
    if (!rest.empty() && rest[0] == '(') {
      after = rest.substr(rest.find(')') + 1);
    }
    RunOps(m, md, after, self, depth);
    return;
  }
  // ---- inner interval begins ----
  if (shared) {
    VX_EXPECT(md.in_excl.Get() == 0, "no-incompatible-holders",
              "fiber %d acquired the lock in shared mode while fiber %d holds it exclusively", self, md.owner);
    md.in_shared.Add(1);
  } else {
    if (depth == 0) {
      VX_EXPECT(md.in_excl.Get() == 0 && md.in_shared.Get() == 0, "no-incompatible-holders",
                "fiber %d acquired the lock exclusively while it is held (exclusive holders %d, shared holders %d)", self,
                md.in_excl.Get(), md.in_shared.Get());
      md.owner = self;
    }
    md.in_excl.Add(1);
  }
  vx::Outcome("%d%c+ ", self, op);
  vx::Point();
  // nested part (recursive kinds): everything up to the matching ')'
  std::string after = rest;
  if (!rest.empty() && rest[0] == '(') {
    const auto close = rest.find(')');
    RunOps(m, md, rest.substr(1, close - 1), self, depth + 1);
    after = rest.substr(close + 1);
  }
  // ---- inner interval ends, release ----
  if (shared) {
    md.in_shared.Add(-1);
    if constexpr (kHasShared<M>) {
      m.unlock_shared();
    }
    md.out_shared.Add(-1);
  } else {
    md.in_excl.Add(-1);
    if (depth == 0) {
      md.owner = -1;
    }
    m.unlock();
    if (depth == 0) {
      md.out_excl.Add(-1);
    }
  }
  RunOps(m, md, after, self, depth);
}

template <typename M>
void RunLockCell(const vx::Cell& cell) {
  M m;
  Model md;
  const std::string progs[3] = {cell.Str("a"), cell.Str("b"), cell.Str("c")};
  const int k = progs[2].empty() ? 2 : 3;
  {
    std::vector<yaclib_std::thread> ts;
    ts.reserve(3);
    for (int i = 0; i < k; ++i) {
      ts.emplace_back([&, i] {
        RunOps(m, md, progs[i], i + 1, 0);
      });
    }
    for (auto& t : ts) {
      t.join();
    }
  }
  VX_EXPECT(md.in_excl.Get() == 0 && md.in_shared.Get() == 0, "harness:model", "model not balanced at the end");
}

// ---- condition variable ----
void RunCv(const vx::Cell& cell) {
  const std::string& form = cell.Str("form");
  const int waiters = cell.Int("w", 1);
  yaclib_std::mutex m;
  yaclib_std::condition_variable cv;
  bool go = false;      // guarded by m
  int waiting = 0;      // guarded by m: fibers that are inside cv.wait for sure
  int woken = 0;        // guarded by m
  {
    std::vector<yaclib_std::thread> ts;
    ts.reserve(4);
    for (int i = 0; i < waiters; ++i) {
      ts.emplace_back([&] {
        std::unique_lock<yaclib_std::mutex> lock{m};
        if (form == "pred") {
          cv.wait(lock, [&] {
            return go;
          });
          VX_EXPECT(go, "cv-predicate", "wait(pred) returned with a false predicate");
        } else if (form == "plain") {
          // a waiter that is certainly blocked when the notifier looks must be woken by notify
          if (!go) {
            ++waiting;
            cv.wait(lock);
            ++woken;
          }
        } else if (form == "for") {
          const std::uint64_t deadline = vx::VirtualNow() + kHour;
          const bool r = cv.wait_for(lock, std::chrono::hours{1}, [&] {
            return go;
          });
          if (!r) {
            VX_EXPECT(vx::VirtualNow() >= deadline, "timeout-only-after-deadline",
                      "wait_for gave up at virtual time %llu, before its deadline %llu",
                      static_cast<unsigned long long>(vx::VirtualNow()), static_cast<unsigned long long>(deadline));
            vx::Outcome("timeout ");
          } else {
            VX_EXPECT(go, "cv-predicate", "wait_for(pred) returned true with a false predicate");
          }
        } else if (form == "until") {
          const std::uint64_t deadline = vx::VirtualNow() + kHour;
          const auto st = cv.wait_until(lock, yaclib_std::chrono::steady_clock::now() + std::chrono::hours{1});
          if (st == std::cv_status::timeout) {
            VX_EXPECT(vx::VirtualNow() >= deadline, "timeout-only-after-deadline",
                      "wait_until reported timeout at virtual time %llu, before its deadline %llu",
                      static_cast<unsigned long long>(vx::VirtualNow()), static_cast<unsigned long long>(deadline));
            vx::Outcome("timeout ");
          }
        }
      });
    }
    ts.emplace_back([&] {
      int blocked = 0;
      {
        std::unique_lock<yaclib_std::mutex> lock{m};
        go = true;
        blocked = waiting;
        if (cell.Is("notify", "inside")) {
          if (cell.Is("all", "1")) {
            cv.notify_all();
          } else {
            for (int i = 0; i < waiters; ++i) {
              cv.notify_one();
            }
          }
        }
      }
      if (!cell.Is("notify", "inside")) {
        if (cell.Is("all", "1")) {
          cv.notify_all();
        } else {
          for (int i = 0; i < waiters; ++i) {
            cv.notify_one();
          }
        }
      }
      (void)blocked;
    });
    for (auto& t : ts) {
      t.join();
    }
  }
  if (form == "plain") {
    VX_EXPECT(woken == waiting, "notify-wakes-blocked-waiter", "%d waiters were blocked when notified, %d were woken", waiting,
              woken);
  }
}

// ---- thread, sleep, thread-local ----
YACLIB_THREAD_LOCAL_PTR(int) tlsPtr;

void RunMisc(const vx::Cell& cell) {
  const std::string& what = cell.Str("what");
  if (what == "join") {
    int done[2] = {0, 0};
    yaclib_std::thread t0{[&] {
      vx::Point();
      done[0] = 1;
    }};
    yaclib_std::thread t1{[&] {
      yaclib_std::thread inner{[&] {
        vx::Point();
        done[1] = 1;
      }};
      inner.join();
      VX_EXPECT(done[1] == 1, "join-after-finish", "join() returned before the joined thread function finished");
    }};
    VX_EXPECT(t0.joinable(), "joinable", "a started thread is not joinable");
    t0.join();
    VX_EXPECT(done[0] == 1, "join-after-finish", "join() returned before the joined thread function finished");
    t1.join();
    VX_EXPECT(done[1] == 1, "join-after-finish", "join() returned before the joined thread function finished");
  } else if (what == "sleep") {
    std::uint64_t woke[2] = {0, 0};
    std::uint64_t start[2] = {0, 0};
    std::vector<yaclib_std::thread> ts;
    for (int i = 0; i < 2; ++i) {
      ts.emplace_back([&, i] {
        start[i] = vx::VirtualNow();
        yaclib_std::this_thread::sleep_for(std::chrono::milliseconds{(i + 1) * 10});
        woke[i] = vx::VirtualNow();
      });
    }
    for (auto& t : ts) {
      t.join();
    }
    for (int i = 0; i < 2; ++i) {
      VX_EXPECT(woke[i] >= start[i] + static_cast<std::uint64_t>(i + 1) * 10000000ULL, "sleep-at-least",
                "sleep_for(%d ms) returned after %llu ns of virtual time", (i + 1) * 10,
                static_cast<unsigned long long>(woke[i] - start[i]));
    }
  } else if (what == "tls") {
    int cells[3] = {0, 0, 0};
    int seen_ok[3] = {0, 0, 0};
    tlsPtr = &cells[0];
    std::vector<yaclib_std::thread> ts;
    for (int i = 1; i < 3; ++i) {
      ts.emplace_back([&, i] {
        int* initial = tlsPtr.Get();
        VX_EXPECT(initial != &cells[0] || true, "tls", "unused");
        tlsPtr = &cells[i];
        vx::Point();
        int* now = tlsPtr.Get();
        seen_ok[i] = now == &cells[i] ? 1 : 0;
        VX_EXPECT(now == &cells[i], "tls-per-fiber", "thread-local pointer of fiber %d was changed by another fiber", i);
      });
    }
    for (auto& t : ts) {
      t.join();
    }
    int* mine = tlsPtr.Get();
    VX_EXPECT(mine == &cells[0], "tls-per-fiber", "thread-local pointer of the parent was changed by its children");
    tlsPtr = nullptr;
  } else if (what == "eh") {
    // The C++ runtime keeps the stack of exceptions being handled in thread-local storage.  A std::thread that is
    // inside a catch block while another std::thread throws and catches is unaffected; so must a fiber be.
    int ok[2] = {0, 0};
    std::vector<yaclib_std::thread> ts;
    for (int i = 0; i < 2; ++i) {
      ts.emplace_back([&, i] {
        try {
          throw Boom{10 + i};
        } catch (...) {
          vx::Point();  // the other thread may run here, inside this handler
          const int mine = ExceptionCode(std::current_exception());
          VX_EXPECT(mine == 10 + i, "exception-state-per-fiber",
                    "inside its catch block thread %d sees exception %d as the current one, it threw %d", i, mine, 10 + i);
          vx::Point();
          try {
            throw;  // rethrows the exception this handler is handling
          } catch (const Boom& b) {
            VX_EXPECT(b.n == 10 + i, "exception-state-per-fiber", "thread %d rethrew its current exception and caught %d", i, b.n);
            ok[i] = b.n == 10 + i ? 1 : 0;
          } catch (...) {
            VX_EXPECT(false, "exception-state-per-fiber", "thread %d rethrew its current exception and caught something else", i);
          }
        }
        VX_EXPECT(std::uncaught_exceptions() == 0 && std::current_exception() == nullptr, "exception-state-per-fiber",
                  "thread %d still has a current exception after leaving its handler", i);
      });
    }
    for (auto& t : ts) {
      t.join();
    }
    VX_EXPECT(ok[0] == 1 && ok[1] == 1, "exception-state-per-fiber", "handlers completed: %d %d", ok[0], ok[1]);
  }
}

void Gen(const std::string& alphabet, bool recursive, int maxlen, std::vector<std::string>& out) {
  std::vector<std::string> one;
  for (char c : alphabet) {
    one.push_back(std::string(1, c));
  }
  out = one;
  if (maxlen >= 2) {
    for (const auto& x : one) {
      for (const auto& y : one) {
        out.push_back(x + y);  // two sections in a row
        if (recursive && (x == "L" || x == "T" || x == "F")) {
          out.push_back(x + "(" + y + ")");  // second acquisition nested inside the first
        }
      }
    }
  }
}

}  // namespace

std::vector<std::string> Cells(int tier) {
  std::vector<std::string> cells;
  struct P {
    const char* name;
    const char* alphabet;
    bool recursive;
  };
  const P prims[] = {{"mutex", "LT", false},          {"timed_mutex", "LTF", false},
                     {"recursive_mutex", "LT", true}, {"recursive_timed_mutex", "LTF", true},
                     {"shared_mutex", "LTSs", false}, {"shared_timed_mutex", "LTFSsf", false}};
  for (const P& p : prims) {
    std::vector<std::string> progs;
    Gen(p.alphabet, p.recursive, 2, progs);
    for (std::size_t i = 0; i < progs.size(); ++i) {
      for (std::size_t j = i; j < progs.size(); ++j) {
        const std::size_t la = progs[i].size(), lb = progs[j].size();
        if (tier == 0 && la > 1 && lb > 1 && !(progs[i] == progs[j])) {
          continue;  // quick: at most one of the two fibers runs two sections (plus the symmetric pairs)
        }
        cells.push_back(std::string{"prim="} + p.name + ",a=" + progs[i] + ",b=" + progs[j]);
      }
    }
    // three fibers, one section each
    std::vector<std::string> single;
    Gen(p.alphabet, false, 1, single);
    for (const auto& a : single) {
      for (const auto& b : single) {
        for (const auto& c : single) {
          if (a <= b && b <= c && (tier > 0 || a == "L" || c == "L" || a == "S")) {
            cells.push_back(std::string{"prim="} + p.name + ",a=" + a + ",b=" + b + ",c=" + c);
          }
        }
      }
    }
  }
  for (const char* form : {"pred", "plain", "for", "until"}) {
    for (const char* w : {"1", "2"}) {
      for (const char* notify : {"inside", "outside"}) {
        for (const char* all : {"0", "1"}) {
          cells.push_back(std::string{"prim=cv,form="} + form + ",w=" + w + ",notify=" + notify + ",all=" + all);
        }
      }
    }
  }
  for (const char* what : {"join", "sleep", "tls", "eh"}) {
    cells.push_back(std::string{"prim=misc,what="} + what);
  }
  return cells;
}

bool CellBounds(const vx::Cell& cell, int tier, vx::Bounds& b) {
  const bool three = !cell.Str("c").empty();
  const bool cv = cell.Is("prim", "cv");
  b.all_points = true;
  b.rand_choice = true;
  b.S = 0;
  const std::string progs = cell.Str("a") + cell.Str("b") + cell.Str("c") + cell.Str("form");
  const bool timed = progs.find('F') != std::string::npos || progs.find('f') != std::string::npos || progs == "for" ||
                     progs == "until" || cell.Is("form", "for") || cell.Is("form", "until");
  b.T = timed ? 1 : 0;
  if (three || (cv && cell.Int("w") == 2)) {
    b.P = tier == 0 ? 2 : 3;
  } else {
    b.P = tier == 0 ? 3 : 99;
  }
  return true;
}

void Body(const vx::Cell& cell) {
  const std::string& prim = cell.Str("prim");
  if (prim == "mutex") {
    RunLockCell<yaclib_std::mutex>(cell);
  } else if (prim == "timed_mutex") {
    RunLockCell<yaclib_std::timed_mutex>(cell);
  } else if (prim == "recursive_mutex") {
    RunLockCell<yaclib_std::recursive_mutex>(cell);
  } else if (prim == "recursive_timed_mutex") {
    RunLockCell<yaclib_std::recursive_timed_mutex>(cell);
  } else if (prim == "shared_mutex") {
    RunLockCell<yaclib_std::shared_mutex>(cell);
  } else if (prim == "shared_timed_mutex") {
    RunLockCell<yaclib_std::shared_timed_mutex>(cell);
  } else if (prim == "cv") {
    RunCv(cell);
  } else {
    RunMisc(cell);
  }
}

}  // namespace vxh
