// C17: fiber fault-injection runs are a pure function of (program, random answers / seed, configuration).
//
// (a) rng-level exploration: only the random engine is hooked (GetRandNumber, which NeedInject's
//     counter reset, PollRandomElementFromList, ShouldFailAtomicWeak and the sleep jitter all draw from);
//     the real injection counter, list-pick arithmetic and scheduler run.  Every sequence of engine
//     answers up to depth d (each domain has size 2 by configuration) is executed twice in this process
//     (after re-seeding and resetting the injector) and - every K-th sequence - once more in a freshly
//     exec'ed process (different address-space layout); all traces must be identical.
// (b) bounded real-seed enumeration of the restore API: program "A; B" run whole with seed s, recording
//     (random count, injector state) at the boundary, then B alone after SetSeed(s) +
//     ForwardToFaultRandomCount + SetInjectorState: B's trace must be the same.
#include <yaclib/async/contract.hpp>
#include <yaclib/async/run.hpp>
#include <yaclib/async/wait_for.hpp>
#include <yaclib/coro/await.hpp>
#include <yaclib/coro/future.hpp>
#include <yaclib/coro/mutex.hpp>
#include <yaclib/coro/on.hpp>
#include <yaclib/exe/strand.hpp>
#include <yaclib/fault/config.hpp>
#include <yaclib/fault/detail/fiber/scheduler.hpp>
#include <yaclib/fault/detail/verif.hpp>
#include <yaclib/fault/inject.hpp>
#include <yaclib/fault/injector.hpp>
#include <yaclib/runtime/fair_thread_pool.hpp>

#include <chrono>
#include <cstdio>
#include <cstdlib>
#include <cstring>
#include <string>
#include <sys/wait.h>
#include <unistd.h>
#include <vector>
#include <yaclib_std/atomic>
#include <yaclib_std/condition_variable>
#include <yaclib_std/mutex>
#include <yaclib_std/chrono>
#include <yaclib_std/thread>

namespace {

using yaclib::fault::Scheduler;

// ---- trace ----
struct Trace {
  std::uint64_t h = 1469598103934665603ULL;
  std::uint64_t n = 0;
  void Mix(std::uint64_t v) {
    h = (h ^ v) * 0x100000001b3ULL;
    ++n;
    if (log != nullptr) {
      std::fprintf(log, "%llx\n", static_cast<unsigned long long>(v));
    }
  }
  FILE* log = nullptr;
};
Trace gTrace;
std::uint64_t gBaseId = 0;
bool gHaveBase = false;

// ---- rng-level answers ----
std::vector<unsigned char> gAnswers;  // prefix of engine answers
std::size_t gPos = 0;
std::size_t gDepth = 0;
std::vector<unsigned char> gDomain;  // domain size seen at each position (for the enumeration)
bool gRngHooked = false;

long long HRand(unsigned long long max) {
  if (!gRngHooked) {
    return -1;
  }
  // beyond the enumerated depth: the last value of the domain (for the weak-CAS draw 0 means "fail
  // spuriously", so a constant 0 would make every CAS loop spin forever)
  unsigned long long a = max > 0 ? max - 1 : 0;
  if (gPos < gDepth && max > 1) {
    a = 0;
    if (gPos < gAnswers.size()) {
      a = gAnswers[gPos];
    } else {
      gAnswers.push_back(0);
    }
    if (gPos >= gDomain.size()) {
      gDomain.push_back(static_cast<unsigned char>(max < 2 ? max : 2));
    }
    ++gPos;
    if (a >= max) {
      a = max - 1;
    }
  }
  gTrace.Mix(0x7a11 ^ (a << 8) ^ (max << 20));
  return static_cast<long long>(a);
}

void HResumed(unsigned long long id) {
  if (!gHaveBase) {
    gBaseId = id;
    gHaveBase = true;
  }
  gTrace.Mix(0x5e5 ^ ((id - gBaseId) << 12));
}

void HEvent(int kind, const void* /*obj*/, int order, unsigned long long before, unsigned long long after) {
  // client-visible order of operations (values of pointers are address dependent: only small values are mixed)
  std::uint64_t v = static_cast<std::uint64_t>(kind) ^ (static_cast<std::uint64_t>(order) << 8);
  if (kind <= yaclib::verif::kCasFail && before < 4096 && after < 4096) {
    v ^= (before << 16) ^ (after << 32);
  }
  gTrace.Mix(v);
}

void Client(std::uint64_t what) {
  gTrace.Mix(0xc11e47 ^ (what << 4));
}

// ---- client programs ----
void ProgPoolStrand() {
  yaclib::FairThreadPool pool{2};
  auto strand = yaclib::MakeStrand(&pool);
  yaclib_std::atomic<int> sum{0};
  std::vector<yaclib::FutureOn<int>> fs;
  for (int i = 0; i < 3; ++i) {
    fs.push_back(yaclib::Run(*strand, [i, &sum] {
                   sum.fetch_add(i + 1, std::memory_order_relaxed);
                   Client(static_cast<std::uint64_t>(100 + i));
                   return i;
                 }).Then(pool, [&sum](int v) {
      Client(static_cast<std::uint64_t>(200 + v));
      return sum.load(std::memory_order_relaxed) + v;
    }));
  }
  for (auto& f : fs) {
    auto r = std::move(f).Get();
    Client(static_cast<std::uint64_t>(300 + (r ? std::move(r).Value() : -1)));
  }
  pool.Stop();
  pool.Wait();
}

void ProgTimedWait() {
  auto [f, p] = yaclib::MakeContract<int>();
  auto [f2, p2] = yaclib::MakeContract<int>();
  yaclib_std::thread producer{[p = std::move(p), p2 = std::move(p2)]() mutable {
    yaclib_std::this_thread::sleep_for(std::chrono::nanoseconds{35});
    std::move(p).Set(1);
    yaclib_std::this_thread::sleep_for(std::chrono::nanoseconds{35});
    std::move(p2).Set(2);
  }};
  int rounds = 0;
  while (!yaclib::WaitFor(std::chrono::nanoseconds{20}, f, f2)) {
    Client(static_cast<std::uint64_t>(400 + rounds));
    if (++rounds > 50) {
      break;
    }
  }
  Client(static_cast<std::uint64_t>(450 + rounds));
  producer.join();
  std::ignore = std::move(f).Get();
  std::ignore = std::move(f2).Get();
}

void ProgCoroMutex() {
  yaclib::FairThreadPool pool{2};
  yaclib::Mutex<> m;
  int cs = 0;
  auto coro = [&](int id) -> yaclib::Future<> {
    co_await yaclib::On(pool);
    for (int r = 0; r < 2; ++r) {
      co_await m.Lock();
      ++cs;
      Client(static_cast<std::uint64_t>(500 + id * 10 + r));
      co_await m.Unlock();
    }
    co_return{};
  };
  std::vector<yaclib::Future<>> fs;
  for (int i = 0; i < 3; ++i) {
    fs.push_back(coro(i));
  }
  for (auto& f : fs) {
    std::ignore = std::move(f).Get();
  }
  Client(static_cast<std::uint64_t>(590 + cs));
  pool.Stop();
  pool.Wait();
}

void ProgCvPingPong() {
  yaclib_std::mutex m;
  yaclib_std::condition_variable cv;
  int turn = 0;
  auto player = [&](int me) {
    for (int i = 0; i < 3; ++i) {
      std::unique_lock<yaclib_std::mutex> lock{m};
      cv.wait(lock, [&] {
        return turn % 2 == me;
      });
      Client(static_cast<std::uint64_t>(600 + turn));
      ++turn;
      cv.notify_all();
    }
  };
  yaclib_std::thread a{[&] {
    player(0);
  }};
  yaclib_std::thread b{[&] {
    player(1);
  }};
  a.join();
  b.join();
}

void ProgTimedMutex() {
  yaclib_std::timed_mutex m;
  int got = 0;
  m.lock();
  yaclib_std::thread w{[&] {
    if (m.try_lock_for(std::chrono::nanoseconds{60})) {
      ++got;
      Client(700);
      m.unlock();
    } else {
      Client(701);
    }
  }};
  yaclib_std::thread v{[&] {
    m.lock();
    ++got;
    Client(702);
    m.unlock();
  }};
  yaclib_std::this_thread::sleep_for(std::chrono::nanoseconds{45});
  m.unlock();
  w.join();
  v.join();
  Client(static_cast<std::uint64_t>(710 + got));
}

// A releases a timed mutex during the last tick before the deadline of a timed waiter (whose sleep slot is
// shifted by the sleep jitter): the notified waiter resumes just past its slot
void ProgTimedMutexEdge() {
  using Clock = yaclib_std::chrono::steady_clock;
  struct State {
    yaclib_std::timed_mutex m;
    Clock::time_point deadline{};
    bool timed_blocking = false, plain_blocking = false;
  };
  auto* s = new State;  // the waiters are detached and outlive this function
  s->m.lock();
  yaclib_std::thread v{[s] {
    s->plain_blocking = true;
    s->m.lock();
    s->m.unlock();
  }};
  yaclib_std::thread w{[s] {
    s->deadline = Clock::now() + std::chrono::nanoseconds{1000};
    s->timed_blocking = true;
    if (s->m.try_lock_until(s->deadline)) {
      s->m.unlock();
    }
  }};
  while (!(s->timed_blocking && s->plain_blocking)) {
    yaclib_std::this_thread::yield();
  }
  while (Clock::now() + std::chrono::nanoseconds{10} < s->deadline) {
    yaclib_std::this_thread::yield();
  }
  s->m.unlock();
  v.detach();
  w.detach();
}

using Prog = void (*)();
const Prog kProgs[] = {&ProgPoolStrand, &ProgTimedWait, &ProgCoroMutex, &ProgCvPingPong, &ProgTimedMutex, &ProgTimedMutexEdge};
const char* const kProgNames[] = {"pool+strand pipeline", "timed waits", "coroutine mutex on a pool", "condition-variable ping-pong",
                                  "timed mutex hand-off", "timed mutex released in the last tick before a deadline"};
constexpr int kNProgs = 5;  // programs used by (a) and (b); the last one is the crash probe of (c)

struct RunResult {
  std::uint64_t hash, events, injected, rand_count, vtime;
};

// one run of program `prog` from a clean fault-layer state
FILE* gLogNext = nullptr;

RunResult RunOnce(int prog, std::uint32_t seed) {
  gTrace = Trace{};
  gTrace.log = gLogNext;
  gHaveBase = false;
  gPos = 0;
  yaclib::SetSeed(seed);
  yaclib::fiber::SetInjectorState(0);
  const std::uint64_t inj0 = yaclib::GetInjectedCount();
  const std::uint64_t rc0 = yaclib::fiber::GetFaultRandomCount();
  Scheduler sched;
  Scheduler::Set(&sched);
  {
    // ProgCvPingPong passes an argument to a thread function: fiber threads only support callables without arguments
    yaclib_std::thread root{[prog] {
      kProgs[prog]();
    }};
    root.join();
  }
  RunResult r;
  r.vtime = sched.GetTimeNs();
  Scheduler::Set(nullptr);
  r.injected = yaclib::GetInjectedCount() - inj0;
  r.rand_count = yaclib::fiber::GetFaultRandomCount() - rc0;
  gTrace.Mix(r.injected);
  gTrace.Mix(r.rand_count);
  gTrace.Mix(r.vtime);
  r.hash = gTrace.h;
  r.events = gTrace.n;
  return r;
}

void Configure(int freq, int pick, int cas, int jitter, int tick) {
  yaclib::SetFaultFrequency(static_cast<std::uint32_t>(freq));
  yaclib::fiber::SetFaultRandomListPick(static_cast<std::uint32_t>(pick));
  yaclib::SetAtomicFailFrequency(static_cast<std::uint32_t>(cas));
  yaclib::SetFaultSleepTime(static_cast<std::uint32_t>(jitter));
  yaclib::fiber::SetFaultTickLength(static_cast<std::uint32_t>(tick));
  yaclib::fiber::SetStackSize(48);
  yaclib::fiber::SetHardwareConcurrency(2);
}

std::string gSelf;
std::vector<std::string> gFindings;
std::vector<std::string> gSamples;
std::uint64_t gRuns = 0, gSequences = 0, gFresh = 0, gSeedCases = 0, gDistinct = 0;
std::vector<std::uint64_t> gSeenHashes;

void Finding(const std::string& oracle, const std::string& program, const std::string& text) {
  if (gFindings.size() < 40) {
    gFindings.push_back("{\"oracle\":\"" + oracle + "\",\"program\":\"" + program + "\",\"text\":\"" + text + "\"}");
  }
}

std::string Bits(const std::vector<unsigned char>& a) {
  std::string s;
  for (unsigned char c : a) {
    s += static_cast<char>('0' + c);
  }
  return s;
}

// runs `--one prog bits` in a freshly exec'ed process and returns the hash it prints
bool FreshProcess(int prog, const std::string& bits, std::uint64_t& hash) {
  int fds[2];
  if (pipe(fds) != 0) {
    return false;
  }
  const pid_t pid = fork();
  if (pid == 0) {
    dup2(fds[1], 1);
    close(fds[0]);
    close(fds[1]);
    const std::string p = std::to_string(prog);
    execl(gSelf.c_str(), gSelf.c_str(), "--one", p.c_str(), bits.empty() ? "-" : bits.c_str(), static_cast<char*>(nullptr));
    _exit(127);
  }
  close(fds[1]);
  char buf[64] = {0};
  const ssize_t got = read(fds[0], buf, sizeof(buf) - 1);
  close(fds[0]);
  int status = 0;
  waitpid(pid, &status, 0);
  if (got <= 0 || !WIFEXITED(status) || WEXITSTATUS(status) != 0) {
    return false;
  }
  hash = std::strtoull(buf, nullptr, 16);
  return true;
}

void RngLevel(int depth, int fresh_every, double t_end, bool& capped) {
  gRngHooked = true;
  Configure(2, 1, 2, 2, 10);
  for (int prog = 0; prog < kNProgs && !capped; ++prog) {
    gDepth = static_cast<std::size_t>(depth);
    gAnswers.clear();
    gDomain.clear();
    std::uint64_t count = 0;
    for (;;) {
      const std::vector<unsigned char> prefix = gAnswers;
      const RunResult a = RunOnce(prog, 7);
      gAnswers.resize(std::min(gAnswers.size(), gPos));
      const std::vector<unsigned char> taken = gAnswers;
      const RunResult b = RunOnce(prog, 7);
      gRuns += 2;
      ++gSequences;
      ++count;
      if (a.hash != b.hash || a.events != b.events) {
        Finding("not-reproducible-in-process", std::string{kProgNames[prog]} + " answers=" + Bits(taken),
                "two runs in the same process after SetSeed + injector reset differ: trace hash " + std::to_string(a.hash) + " (" +
                  std::to_string(a.events) + " events, vtime " + std::to_string(a.vtime) + ") vs " + std::to_string(b.hash) + " (" +
                  std::to_string(b.events) + " events, vtime " + std::to_string(b.vtime) + ")");
      }
      if (fresh_every > 0 && count % static_cast<std::uint64_t>(fresh_every) == 1) {
        std::uint64_t fh = 0;
        ++gFresh;
        if (!FreshProcess(prog, Bits(taken), fh)) {
          Finding("fresh-process-failed", std::string{kProgNames[prog]} + " answers=" + Bits(taken), "the fresh process did not finish");
        } else if (fh != a.hash) {
          Finding("not-reproducible-across-processes", std::string{kProgNames[prog]} + " answers=" + Bits(taken),
                  "a freshly started process produced trace hash " + std::to_string(fh) + ", this process " + std::to_string(a.hash));
        }
      }
      bool seen = false;
      for (auto h : gSeenHashes) {
        seen = seen || h == a.hash;
      }
      if (!seen && gSeenHashes.size() < 100000) {
        gSeenHashes.push_back(a.hash);
        ++gDistinct;
      }
      if (gSamples.size() < 6 && (count == 1 || count == 77)) {
        gSamples.push_back(std::string{kProgNames[prog]} + ": engine answers " + Bits(taken) + " -> " + std::to_string(a.events) +
                           " trace events, " + std::to_string(a.injected) + " injected yields, virtual time " + std::to_string(a.vtime));
      }
      // next answer sequence in lexicographic order (binary domains)
      gAnswers = taken;
      while (!gAnswers.empty() && (gAnswers.back() + 1 >= 2)) {
        gAnswers.pop_back();
      }
      if (gAnswers.empty()) {
        break;
      }
      ++gAnswers.back();
      if ((count & 31) == 0) {
        const double now = std::chrono::duration<double>(std::chrono::steady_clock::now().time_since_epoch()).count();
        if (t_end > 0 && now > t_end) {
          capped = true;
          break;
        }
      }
      (void)prefix;
    }
  }
  gRngHooked = false;
}

// (b) restore API with real seeds
void PhaseTrace(int prog, RunResult& out) {
  gTrace = Trace{};
  gHaveBase = false;
  const std::uint64_t inj0 = yaclib::GetInjectedCount();
  {
    yaclib_std::thread root{[prog] {
      kProgs[prog]();
    }};
    root.join();
  }
  out.injected = yaclib::GetInjectedCount() - inj0;
  gTrace.Mix(out.injected);
  out.hash = gTrace.h;
  out.events = gTrace.n;
}

void RealSeeds(int nseeds, double t_end, bool& capped) {
  gRngHooked = false;
  const int freqs[] = {1, 2, 5};
  const int picks[] = {1, 2, 10};
  for (int fi = 0; fi < 3 && !capped; ++fi) {
    for (int pi = 0; pi < 3 && !capped; ++pi) {
      // odd pick widths also run with a sleep jitter that is not a multiple of the tick
      Configure(freqs[fi], picks[pi], 3, (pi % 2) == 0 ? 1 : 7, 10);
      for (int seed = 0; seed < nseeds; ++seed) {
        const int pa = seed % kNProgs;
        const int pb = (seed / kNProgs + 1) % kNProgs;
        RunResult b1{}, b2{}, a1{};
        std::uint64_t cnt = 0;
        std::uint32_t st = 0;
        {
          yaclib::SetSeed(static_cast<std::uint32_t>(seed));
          yaclib::fiber::SetInjectorState(0);
          const std::uint64_t rc0 = yaclib::fiber::GetFaultRandomCount();
          Scheduler sched;
          Scheduler::Set(&sched);
          PhaseTrace(pa, a1);
          cnt = yaclib::fiber::GetFaultRandomCount() - rc0;
          st = yaclib::fiber::GetInjectorState();
          PhaseTrace(pb, b1);
          Scheduler::Set(nullptr);
        }
        {
          yaclib::SetSeed(static_cast<std::uint32_t>(seed));
          yaclib::fiber::ForwardToFaultRandomCount(cnt);
          yaclib::fiber::SetInjectorState(st);
          Scheduler sched;
          Scheduler::Set(&sched);
          PhaseTrace(pb, b2);
          Scheduler::Set(nullptr);
        }
        gRuns += 3;
        ++gSeedCases;
        if (b1.hash != b2.hash || b1.events != b2.events) {
          Finding("restore-does-not-continue", std::string{kProgNames[pa]} + " ; " + kProgNames[pb] + " seed=" + std::to_string(seed) +
                                                 " freq=" + std::to_string(freqs[fi]) + " pick=" + std::to_string(picks[pi]),
                  "phase B after SetSeed+ForwardToFaultRandomCount(" + std::to_string(cnt) + ")+SetInjectorState(" + std::to_string(st) +
                    ") gave trace hash " + std::to_string(b2.hash) + " (" + std::to_string(b2.events) + " events), in the whole run " +
                    std::to_string(b1.hash) + " (" + std::to_string(b1.events) + " events)");
        }
        if ((seed & 15) == 0) {
          const double now = std::chrono::duration<double>(std::chrono::steady_clock::now().time_since_epoch()).count();
          if (t_end > 0 && now > t_end) {
            capped = true;
            break;
          }
        }
      }
    }
  }
}

// (c) crash probe: the edge program under real seeds and jitters, each case in a forked child
void CrashProbe(int nseeds) {
  const int jitters[] = {1, 7, 200};
  for (int ji = 0; ji < 3; ++ji) {
    for (int seed = 0; seed < nseeds; ++seed) {
      const pid_t pid = fork();
      if (pid == 0) {
        Configure(1000000, 2, 3, jitters[ji], 10);
        RunOnce(5, static_cast<std::uint32_t>(seed));
        _exit(0);
      }
      int status = 0;
      waitpid(pid, &status, 0);
      ++gRuns;
      ++gSeedCases;
      if (!WIFEXITED(status) || WEXITSTATUS(status) != 0) {
        Finding("scheduler-crash", std::string{kProgNames[5]} + " seed=" + std::to_string(seed) + " jitter=" + std::to_string(jitters[ji]),
                WIFSIGNALED(status) ? "the fiber scheduler crashed with signal " + std::to_string(WTERMSIG(status))
                                    : "the run exited with code " + std::to_string(WEXITSTATUS(status)));
        break;
      }
    }
  }
}

}  // namespace

int main(int argc, char** argv) {
  gSelf = argv[0];
  auto& h = yaclib::verif::gHooks;
  h.rand = &HRand;
  h.resumed = &HResumed;
  h.event = &HEvent;
  if (argc >= 4 && std::string{argv[1]} == "--one") {
    const int prog = std::atoi(argv[2]);
    const std::string bits = argv[3];
    gRngHooked = true;
    Configure(2, 1, 2, 2, 10);
    gDepth = 64;
    gAnswers.clear();
    if (bits != "-") {
      for (char c : bits) {
        gAnswers.push_back(static_cast<unsigned char>(c - '0'));
      }
    }
    gDepth = gAnswers.size();
    if (std::getenv("REPRO_LOG") != nullptr) {
      // debugging aid: dump the mixed values of two consecutive in-process runs
      FILE* f1 = std::fopen("/tmp/repro_run1.log", "w");
      FILE* f2 = std::fopen("/tmp/repro_run2.log", "w");
      const std::vector<unsigned char> keep = gAnswers;
      gTrace.log = f1;
      gLogNext = f1;
      RunOnce(prog, 7);
      gAnswers = keep;
      gLogNext = f2;
      RunOnce(prog, 7);
      std::fclose(f1);
      std::fclose(f2);
      return 0;
    }
    const RunResult r = RunOnce(prog, 7);
    std::printf("%llx\n", static_cast<unsigned long long>(r.hash));
    return 0;
  }
  int tier = 0;
  std::string out;
  double deadline = 0;
  for (int i = 1; i < argc; ++i) {
    std::string a = argv[i];
    if (a == "--tier" && i + 1 < argc) {
      tier = std::string{argv[++i]} == "thorough" ? 1 : 0;
    } else if (a == "--out" && i + 1 < argc) {
      out = argv[++i];
    } else if (a == "--deadline" && i + 1 < argc) {
      deadline = std::atof(argv[++i]);
    } else if (i + 1 < argc) {
      ++i;
    }
  }
  const double now = std::chrono::duration<double>(std::chrono::steady_clock::now().time_since_epoch()).count();
  const double t_end = deadline > 0 ? now + deadline : 0;
  bool capped = false;
  RngLevel(tier == 0 ? 12 : 16, tier == 0 ? 32 : 256, deadline > 0 ? now + deadline * 0.7 : 0, capped);
  RealSeeds(tier == 0 ? 256 : 4096, t_end, capped);
  CrashProbe(tier == 0 ? 24 : 200);
  std::string js = "{\"harness\":\"repro\",\"property\":\"C17\",\"cells\":[{\"cell\":\"rng-level + real seeds\",";
  char b[500];
  std::snprintf(b, sizeof(b),
                "\"executions\":%llu,\"nodes\":%llu,\"transitions\":%llu,\"distinct_traces\":%llu,\"distinct_outcomes\":%llu,"
                "\"answer_sequences\":%llu,\"fresh_process_runs\":%llu,\"real_seed_cases\":%llu,\"exhaustive\":%s,\"cap\":\"%s\","
                "\"failing_executions\":%llu,",
                static_cast<unsigned long long>(gRuns), static_cast<unsigned long long>(gSequences + gSeedCases),
                static_cast<unsigned long long>(gRuns), static_cast<unsigned long long>(gDistinct + 1),
                static_cast<unsigned long long>(gDistinct), static_cast<unsigned long long>(gSequences),
                static_cast<unsigned long long>(gFresh), static_cast<unsigned long long>(gSeedCases), capped ? "false" : "true",
                capped ? "deadline" : "", static_cast<unsigned long long>(gFindings.size()));
  js += b;
  js += "\"sample_programs\":[";
  for (std::size_t i = 0; i < gSamples.size(); ++i) {
    js += (i ? ",\"" : "\"") + gSamples[i] + "\"";
  }
  js += "],\"violations\":[";
  for (std::size_t i = 0; i < gFindings.size(); ++i) {
    js += (i ? "," : "") + gFindings[i];
  }
  js += "]}]}\n";
  if (out.empty()) {
    std::fputs(js.c_str(), stdout);
  } else {
    FILE* f = std::fopen(out.c_str(), "w");
    std::fputs(js.c_str(), f);
    std::fclose(f);
  }
  return gFindings.empty() ? 0 : 1;
}
