// Harness `pool` (C08): submitter fibers, n worker fibers of a real FairThreadPool and one fiber calling
// Stop / SoftStop / HardStop at any moment, followed by Wait.
#include "common.hpp"

#include <yaclib/runtime/fair_thread_pool.hpp>

#include <yaclib_std/thread>

namespace vxh {

const char* const kName = "pool";
const char* const kProperty = "C08";

namespace {

struct World;

struct PJob final : yaclib::Job {
  World* w = nullptr;
  int id = 0;
  int calls = 0;
  int drops = 0;
  PJob* resubmit = nullptr;  // submitted from inside Call
  bool accepted_for_sure = false;  // its Submit returned before any stop request had started
  bool ran_after_wait = false;
  void Call() noexcept final;
  void Drop() noexcept final;
};

struct World {
  yaclib::FairThreadPool* pool = nullptr;
  vx::Shared stop_started{1};
  vx::Shared wait_returned{2};
  vx::Shared running{3};
  vx::Shared nstart{4};
  vx::Shared finished{5};
  int start_order[8];
  vx::Shared finished_at_drop{6, -1};
};

void PJob::Call() noexcept {
  ++calls;
  if (w->wait_returned.Get() != 0) {
    ran_after_wait = true;
  }
  w->running.Add(1);
  const int pos = w->nstart.Add(1) - 1;
  if (pos < 8) {
    w->start_order[pos] = id;
  }
  vx::Point();
  if (resubmit != nullptr) {
    w->pool->Submit(*resubmit);
  }
  w->running.Add(-1);
  w->finished.Add(1);
}

void PJob::Drop() noexcept {
  ++drops;
  VX_EXPECT(w->stop_started.Get() != 0, "drop-only-if-stopped", "job %d was dropped before any stop request had even started",
            id);
  w->finished_at_drop.Set(w->finished.Get());
}

void RunCell(const vx::Cell& cell) {
  const int n = cell.Int("n", 1);
  const int k = cell.Int("k", 1);
  const int j = cell.Int("j", 1);
  const bool resub = cell.Is("resub", "1");
  const std::string& stop = cell.Str("stop");
  World w;
  PJob jobs[6];
  const int njobs = k * j + (resub ? 1 : 0);
  for (int i = 0; i < njobs; ++i) {
    jobs[i].w = &w;
    jobs[i].id = i;
  }
  if (resub) {
    jobs[0].resubmit = &jobs[njobs - 1];
  }
  {
    yaclib::FairThreadPool pool{static_cast<std::uint64_t>(n)};
    w.pool = &pool;
    std::vector<yaclib_std::thread> ts;
    ts.reserve(4);
    for (int s = 0; s < k; ++s) {
      ts.emplace_back([&, s] {
        for (int q = 0; q < j; ++q) {
          PJob& job = jobs[s * j + q];
          pool.Submit(job);
          // the submission returned before the stop request started: it must have been accepted
          if (w.stop_started.Get() == 0) {
            job.accepted_for_sure = true;
          }
        }
      });
    }
    ts.emplace_back([&] {
      w.stop_started.Set(1);
      if (stop == "stop") {
        pool.Stop();
      } else if (stop == "soft") {
        pool.SoftStop();
      } else if (stop == "hard") {
        pool.HardStop();
      }
    });
    for (auto& t : ts) {
      t.join();
    }
    if (stop == "soft") {
      // SoftStop takes effect once nothing is queued or running; a second one after the submitters are
      // done makes sure the pool does stop (the first may have come too early to see any job)
      pool.SoftStop();
    } else if (stop == "late") {
      pool.Stop();
    }
    pool.Wait();
    w.wait_returned.Set(1);
    VX_EXPECT(w.running.Get() == 0, "wait-means-done", "Wait() returned while a job is running");
  }
  // ---- oracles ----
  int called = 0;
  for (int i = 0; i < njobs; ++i) {
    const PJob& job = jobs[i];
    // the job resubmitted from inside job 0 exists only if job 0 was called
    const int want = (resub && i == njobs - 1) ? jobs[0].calls : 1;
    VX_EXPECT(job.calls + job.drops == want, "call-xor-drop", "job %d: Call x%d, Drop x%d (expected %d in total)", i, job.calls,
              job.drops, want);
    VX_EXPECT(!job.ran_after_wait, "wait-means-done", "job %d ran after Wait() returned", i);
    called += job.calls;
    if (job.accepted_for_sure && stop != "hard") {
      VX_EXPECT(job.calls == 1, "accepted-jobs-run", "job %d was accepted before %s was requested but was not called", i,
                stop.c_str());
    }
    if (stop == "late") {
      // Stop is requested only after every submitter returned: everything submitted from outside runs
      // (the job resubmitted from inside job 0 may arrive after the stop)
      if (!(resub && i == njobs - 1)) {
        VX_EXPECT(job.calls == 1, "accepted-jobs-run", "job %d was dropped under %s", i, stop.c_str());
      }
    }
  }
  const int finished_at_drop = w.finished_at_drop.Get();
  if (stop == "soft" && finished_at_drop >= 0) {
    // a soft stop happens only when no job is queued or running: whatever was called had finished
    VX_EXPECT(finished_at_drop == called, "soft-stop-waits",
              "a job was dropped by a soft-stopped pool while %d of the %d called jobs had not finished",
              called - finished_at_drop, called);
  }
  if (n == 1) {
    // single worker: jobs start in submission order (per submitter: program order)
    int pos[6] = {-1, -1, -1, -1, -1, -1};
    const int ns = w.nstart.Get();
    for (int i = 0; i < ns && i < 8; ++i) {
      pos[w.start_order[i]] = i;
    }
    for (int s = 0; s < k; ++s) {
      for (int q = 0; q + 1 < j; ++q) {
        const int a = s * j + q, b = a + 1;
        if (pos[a] >= 0 && pos[b] >= 0) {
          VX_EXPECT(pos[a] < pos[b], "fifo-single-worker", "job %d was submitted before job %d by the same thread but started after it", a, b);
        }
        if (pos[b] >= 0) {
          VX_EXPECT(pos[a] >= 0, "fifo-single-worker", "job %d ran although job %d, submitted earlier by the same thread, did not", b, a);
        }
      }
    }
  }
  vx::Outcome("called=%d/%d", called, njobs);
}

}  // namespace

std::vector<std::string> Cells(int tier) {
  std::vector<std::string> cells;
  for (const char* stop : {"late", "stop", "soft", "hard"}) {
    for (const char* n : {"1", "2"}) {
      for (const char* kj : {"k=1,j=1", "k=1,j=2", "k=2,j=1"}) {
        for (const char* resub : {"0", "1"}) {
          if (tier == 0 && n[0] == '2' && std::string{kj} == "k=2,j=1" && resub[0] == '1') {
            continue;
          }
          cells.push_back(std::string{"stop="} + stop + ",n=" + n + "," + kj + ",resub=" + resub);
        }
      }
    }
  }
  return cells;
}

bool CellBounds(const vx::Cell& cell, int tier, vx::Bounds& b) {
  // calibrated with tools_calibrate.py so that every cell completes
  const int n = cell.Int("n");
  const int k = cell.Int("k");
  if (n == 1) {
    b.P = tier == 0 ? 2 : 3;
  } else {
    b.P = (tier == 0 || k == 2) ? 1 : 2;
  }
  b.S = 1;
  b.T = 0;
  return true;
}

void Body(const vx::Cell& cell) {
  RunCell(cell);
}

}  // namespace vxh
