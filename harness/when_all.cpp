// Harness `when_all` (C09): n inputs, each fulfilled by its own fiber, while the root fiber is still
// inside WhenAll/Join registering them; every policy, input form and success/failure pattern.
#include "common.hpp"

#include <yaclib/async/contract.hpp>
#include <yaclib/async/join.hpp>
#include <yaclib/async/shared_contract.hpp>
#include <yaclib/async/when_all.hpp>

#include <yaclib_std/thread>

namespace vxh {

const char* const kName = "when_all";
const char* const kProperty = "C09";

namespace {

using E = MyError;
using yaclib::FailPolicy;

// payload types for the heterogeneous (tuple) form: the tuple output is default-constructed by the library
struct TA {
  TA() : t{0} {
  }
  explicit TA(int id) : t{id} {
  }
  int Get() const {
    return t.Get();
  }
  vx::Tracked t;
};
struct TB {
  TB() : t{0} {
  }
  explicit TB(int id) : t{id} {
  }
  int Get() const {
    return t.Get();
  }
  vx::Tracked t;
};

struct Times {
  std::uint64_t start[3] = {0, 0, 0};
  std::uint64_t ret[3] = {0, 0, 0};
  std::uint64_t call = 0;      // just before the combinator call
  std::uint64_t when_ret = 0;  // just after it returned
  // The combinator can observe input i no earlier than lo(i) and no later than hi(i): through the
  // input's own Set if it was registered first, otherwise during registration.
  std::uint64_t lo(int i) const {
    return std::max(start[i], call);
  }
  std::uint64_t hi(int i) const {
    return std::max(ret[i], when_ret);
  }
};

template <typename P>
void SetInput(P p, char what, int i, Times& tm) {
  using V = typename std::remove_reference_t<decltype(*p.GetCore())>::Value;
  tm.start[i] = vx::Now();
  if (what == 'V') {
    if constexpr (std::is_void_v<V>) {
      std::move(p).Set();
    } else {
      std::move(p).Set(V{10 + i});
    }
  } else if (what == 'E') {
    std::move(p).Set(MyError{100 + i});
  } else {
    std::move(p).Set(std::make_exception_ptr(Boom{200 + i}));
  }
  tm.ret[i] = vx::Now();
}

std::string Enc(char state, int code) {
  char b[32];
  std::snprintf(b, sizeof(b), "%c%d", state, code);
  return b;
}

template <typename V>
std::string EncResult(const yaclib::Result<V, E>& r) {
  Seen s;
  Observe(s, r);
  return Enc(s.state, s.code);
}

struct Out {
  int count = 0;
  std::uint64_t at = 0;
  std::string text;
};

// ---- decoding the output of each form ----
template <typename T>
std::string EncElem(const T& v) {
  if constexpr (yaclib::is_result_v<T>) {
    return EncResult(v);
  } else if constexpr (std::is_same_v<T, yaclib::Unit>) {
    return "V0";
  } else {
    return Enc('V', v.Get());
  }
}
template <typename T>
std::string EncValue(const std::vector<T>& v) {
  std::string s = "[";
  for (std::size_t i = 0; i < v.size(); ++i) {
    s += (i ? "," : "") + EncElem(v[i]);
  }
  return s + "]";
}
template <typename... T>
std::string EncValue(const std::tuple<T...>& t) {
  std::string s = "[";
  std::size_t i = 0;
  std::apply(
    [&](const auto&... e) {
      ((s += (i++ ? "," : "") + EncElem(e)), ...);
    },
    t);
  return s + "]";
}
template <typename V>
std::string EncOut(const yaclib::Result<V, E>& r) {
  switch (r.State()) {
    case yaclib::ResultState::Value:
      if constexpr (std::is_void_v<V>) {
        return "void";
      } else {
        return EncValue(r.Value());
      }
    case yaclib::ResultState::Error:
      return Enc('E', r.Error().code);
    case yaclib::ResultState::Exception:
      return Enc('X', ExceptionCode(r.Exception()));
    default:
      return "empty";
  }
}

template <typename Make>
void Attach(Make&& make, Out& o, Times& tm) {
  tm.call = vx::Now();
  auto out = make();
  tm.when_ret = vx::Now();
  using R = yaclib::Result<typename std::remove_reference_t<decltype(*out.GetCore())>::Value, E>;
  std::move(out).DetachInline([&o](R&& r) {
    ++o.count;
    o.at = vx::Now();
    o.text = EncOut(r);
  });
}

void Check(const vx::Cell& cell, int n, const Times& tm, const Out& o, std::uint64_t t_attach, bool first_fail,
           bool is_void, bool elem_is_result, bool in_void = false) {
  const std::string& pat = cell.Str("pat");
  VX_EXPECT(o.count == 1, "output-exactly-once", "the combinator's output was delivered %d time(s)", o.count);
  if (o.count != 1) {
    return;
  }
  bool any_fail = false;
  for (int i = 0; i < n; ++i) {
    any_fail = any_fail || pat[i] != 'V';
  }
  auto in_enc = [&](int i) {
    return pat[i] == 'V' ? Enc('V', in_void ? 0 : 10 + i) : pat[i] == 'E' ? Enc('E', 100 + i) : Enc('X', 200 + i);
  };
  std::uint64_t lo = 0, hi = 0;
  if (first_fail && any_fail) {
    // admissible failures: failing input f such that no other failing input was certainly observed by
    // the combinator (hi) before f could possibly have been observed (lo)
    // ... and the output must appear within the window in which that input was observed
    bool ok = false;
    for (int f = 0; f < n; ++f) {
      if (pat[f] == 'V' || o.text != in_enc(f)) {
        continue;
      }
      bool preceded = false;
      for (int g2 = 0; g2 < n; ++g2) {
        preceded = preceded || (g2 != f && pat[g2] != 'V' && tm.hi(g2) < tm.lo(f));
      }
      if (!preceded) {
        ok = true;
        lo = tm.lo(f);
        hi = std::max(tm.hi(f), t_attach);
      }
    }
    VX_EXPECT(ok, "first-failure-wins", "output %s is not the failure of an input that could have failed first (pattern %s)",
              o.text.c_str(), pat.c_str());
    if (!ok) {
      return;
    }
  } else {
    std::string want;
    if (is_void) {
      want = "void";
    } else {
      want = "[";
      for (int i = 0; i < n; ++i) {
        want += (i ? "," : "");
        want += elem_is_result ? in_enc(i) : Enc('V', 10 + i);
      }
      want += "]";
    }
    VX_EXPECT(o.text == want, "values-in-input-order", "output %s, expected %s", o.text.c_str(), want.c_str());
    std::uint64_t max_start = 0, max_ret = 0;
    for (int i = 0; i < n; ++i) {
      max_start = std::max(max_start, tm.lo(i));
      max_ret = std::max(max_ret, tm.hi(i));
    }
    lo = max_start;
    hi = std::max(max_ret, t_attach);
  }
  VX_EXPECT(o.at >= lo, "output-not-early", "output became ready at t=%llu, before the deciding input started completing (t=%llu)",
            static_cast<unsigned long long>(o.at), static_cast<unsigned long long>(lo));
  VX_EXPECT(o.at <= hi, "output-not-late", "output became ready at t=%llu, later than the deciding completion/attach (t=%llu)",
            static_cast<unsigned long long>(o.at), static_cast<unsigned long long>(hi));
  vx::Outcome("%s", o.text.c_str());
}

// form: unique futures of one value type V (Tracked or void); static or dynamic
template <FailPolicy F, typename V, bool Dynamic, bool UseJoin>
void RunUnique(const vx::Cell& cell, int n) {
  const std::string& pat = cell.Str("pat");
  Times tm;
  Out o;
  std::uint64_t t_attach = 0;
  {
    std::vector<yaclib::Future<V, E>> fs;
    std::vector<yaclib_std::thread> ts;
    fs.reserve(3);
    ts.reserve(3);
    for (int i = 0; i < n; ++i) {
      auto [f, p] = yaclib::MakeContract<V, E>();
      fs.push_back(std::move(f));
      ts.emplace_back([&tm, &pat, i, p = std::move(p)]() mutable {
        SetInput(std::move(p), pat[i], i, tm);
      });
    }
    if constexpr (Dynamic) {
      if constexpr (UseJoin) {
        Attach([&] { return yaclib::Join<F>(fs.begin(), fs.end()); }, o, tm);
      } else {
        Attach([&] { return yaclib::WhenAll<F>(fs.begin(), fs.end()); }, o, tm);
      }
    } else {
      if (n == 2) {
        if constexpr (UseJoin) {
          Attach([&] { return yaclib::Join<F>(std::move(fs[0]), std::move(fs[1])); }, o, tm);
        } else {
          Attach([&] { return yaclib::WhenAll<F>(std::move(fs[0]), std::move(fs[1])); }, o, tm);
        }
      } else {
        if constexpr (UseJoin) {
          Attach([&] { return yaclib::Join<F>(std::move(fs[0]), std::move(fs[1]), std::move(fs[2])); }, o, tm);
        } else {
          Attach([&] { return yaclib::WhenAll<F>(std::move(fs[0]), std::move(fs[1]), std::move(fs[2])); }, o, tm);
        }
      }
    }
    t_attach = vx::Now();
    for (auto& t : ts) {
      t.join();
    }
  }
  constexpr bool kVoidOut = UseJoin || (std::is_void_v<V> && F != FailPolicy::None);
  Check(cell, n, tm, o, t_attach, F == FailPolicy::FirstFail, kVoidOut, F == FailPolicy::None, std::is_void_v<V>);
}

// form: shared futures (or a mix of unique and shared) of value type Tracked
template <FailPolicy F, bool Dynamic, bool Mixed>
void RunShared(const vx::Cell& cell, int n) {
  using V = vx::Tracked;
  const std::string& pat = cell.Str("pat");
  const bool keep = cell.Is("keep", "1");
  Times tm;
  Out o;
  std::uint64_t t_attach = 0;
  {
    std::vector<yaclib::SharedFuture<V, E>> sfs;
    yaclib::Future<V, E> uf;
    std::vector<yaclib_std::thread> ts;
    sfs.reserve(3);
    ts.reserve(3);
    for (int i = 0; i < n; ++i) {
      if (Mixed && i == 0) {
        auto [f, p] = yaclib::MakeContract<V, E>();
        uf = std::move(f);
        ts.emplace_back([&tm, &pat, i, p = std::move(p)]() mutable {
          SetInput(std::move(p), pat[i], i, tm);
        });
        sfs.emplace_back();
        continue;
      }
      auto [f, p] = yaclib::MakeSharedContract<V, E>();
      sfs.push_back(std::move(f));
      ts.emplace_back([&tm, &pat, i, p = std::move(p)]() mutable {
        SetInput(std::move(p), pat[i], i, tm);
      });
    }
    if constexpr (Dynamic) {
      std::vector<yaclib::SharedFuture<V, E>> in = sfs;
      if (!keep) {
        sfs.clear();
      }
      Attach([&] { return yaclib::WhenAll<F>(in.begin(), in.end()); }, o, tm);
    } else if constexpr (Mixed) {
      auto s1 = sfs[1];
      if (!keep) {
        sfs.clear();
      }
      Attach([&] { return yaclib::WhenAll<F>(std::move(uf), std::move(s1)); }, o, tm);
    } else {
      auto s0 = sfs[0];
      auto s1 = sfs[1];
      if (!keep) {
        sfs.clear();
      }
      Attach([&] { return yaclib::WhenAll<F>(std::move(s0), std::move(s1)); }, o, tm);
    }
    t_attach = vx::Now();
    for (auto& t : ts) {
      t.join();
    }
    if (keep) {
      // the caller's own copies still read their inputs' results afterwards
      for (int i = 0; i < n; ++i) {
        if (sfs[i].Valid()) {
          const std::string got = EncResult(std::as_const(sfs[i]).Get());
          const std::string want = pat[i] == 'V' ? Enc('V', 10 + i) : pat[i] == 'E' ? Enc('E', 100 + i) : Enc('X', 200 + i);
          VX_EXPECT(got == want, "shared-input-intact", "kept copy of shared input %d reads %s, expected %s", i, got.c_str(),
                    want.c_str());
        }
      }
    }
  }
  Check(cell, n, tm, o, t_attach, F == FailPolicy::FirstFail, false, F == FailPolicy::None);
}

// form: two unique futures of different value types -> tuple output
template <FailPolicy F>
void RunTuple(const vx::Cell& cell) {
  const std::string& pat = cell.Str("pat");
  Times tm;
  Out o;
  std::uint64_t t_attach = 0;
  {
    auto [f0, p0] = yaclib::MakeContract<TA, E>();
    auto [f1, p1] = yaclib::MakeContract<TB, E>();
    yaclib_std::thread t0{[&tm, &pat, p = std::move(p0)]() mutable {
      SetInput(std::move(p), pat[0], 0, tm);
    }};
    yaclib_std::thread t1{[&tm, &pat, p = std::move(p1)]() mutable {
      SetInput(std::move(p), pat[1], 1, tm);
    }};
    Attach([&] { return yaclib::WhenAll<F>(std::move(f0), std::move(f1)); }, o, tm);
    t_attach = vx::Now();
    t0.join();
    t1.join();
  }
  Check(cell, 2, tm, o, t_attach, F == FailPolicy::FirstFail, false, F == FailPolicy::None);
}

template <FailPolicy F>
void Dispatch(const vx::Cell& cell) {
  const std::string& form = cell.Str("form");
  const int n = cell.Int("n", 2);
  if (form == "static") {
    RunUnique<F, vx::Tracked, false, false>(cell, n);
  } else if (form == "dynamic") {
    RunUnique<F, vx::Tracked, true, false>(cell, n);
  } else if (form == "static-void") {
    RunUnique<F, void, false, false>(cell, n);
  } else if (form == "dynamic-void") {
    RunUnique<F, void, true, false>(cell, n);
  } else if (form == "join") {
    RunUnique<F, vx::Tracked, false, true>(cell, n);
  } else if (form == "join-dynamic-void") {
    RunUnique<F, void, true, true>(cell, n);
  } else if (form == "shared") {
    RunShared<F, false, false>(cell, n);
  } else if (form == "shared-dynamic") {
    RunShared<F, true, false>(cell, n);
  } else if (form == "mixed") {
    RunShared<F, false, true>(cell, n);
  } else if (form == "tuple") {
    RunTuple<F>(cell);
  } else if (form == "empty") {
    std::vector<yaclib::Future<vx::Tracked, E>> none;
    auto f = yaclib::WhenAll<F>(none.begin(), none.end());
    VX_EXPECT(!f.Valid(), "empty-input-invalid", "WhenAll over an empty range returned a valid future");
    std::vector<yaclib::Future<void, E>> none2;
    auto j = yaclib::Join<F>(none2.begin(), none2.end());
    VX_EXPECT(!j.Valid(), "empty-input-invalid", "Join over an empty range returned a valid future");
  }
}

}  // namespace

std::vector<std::string> Cells(int tier) {
  std::vector<std::string> cells;
  const char* const forms[] = {"static", "dynamic", "static-void", "dynamic-void", "join", "join-dynamic-void",
                               "shared", "shared-dynamic", "mixed", "tuple"};
  const char states[] = {'V', 'E', 'X'};
  for (const char* pol : {"FirstFail", "None"}) {
    cells.push_back(std::string{"form=empty,pol="} + pol + ",n=0,pat=-");
    for (const char* form : forms) {
      const bool shared = std::string{form}.find("shared") != std::string::npos || std::string{form} == "mixed";
      for (char a : states) {
        for (char b : states) {
          for (const char* keep : {"0", "1"}) {
            if (!shared && keep[0] == '1') {
              continue;
            }
            cells.push_back(std::string{"form="} + form + ",pol=" + pol + ",n=2,pat=" + a + b + ",keep=" + keep);
          }
        }
      }
    }
  }
  // three inputs: every success / failure pattern
  for (const char* pol : {"FirstFail", "None"}) {
    for (const char* form : {"static", "dynamic", "static-void", "join-dynamic-void", "shared-dynamic"}) {
      for (const char* pat : {"VVV", "EVV", "VEV", "VVE", "EEV", "EVE", "VEE", "EEE", "XVV", "VEX", "XEE"}) {
        if (tier == 0 && std::string{form} == "shared-dynamic" && std::string{pat}.find('X') != std::string::npos) {
          continue;
        }
        cells.push_back(std::string{"form="} + form + ",pol=" + pol + ",n=3,pat=" + pat + ",keep=0");
      }
    }
  }
  return cells;
}

bool CellBounds(const vx::Cell& cell, int tier, vx::Bounds& b) {
  const int n = cell.Int("n", 2);
  const bool shared = cell.Str("form").find("shared") != std::string::npos || cell.Is("form", "mixed");
  // calibrated (schedules per cell): unique inputs n=2: P=3 ~5 k, P=4 ~30 k, P=5 ~150 k; shared inputs n=2: P=3 ~50 k, P=4 ~450 k
  if (n >= 3) {
    b.P = tier == 0 ? 2 : 3;
  } else if (shared) {
    b.P = tier == 0 ? 3 : 4;
  } else {
    b.P = tier == 0 ? 4 : 5;
  }
  b.S = 1;
  b.T = 0;
  return true;
}

void Body(const vx::Cell& cell) {
  if (cell.Is("pol", "FirstFail")) {
    Dispatch<yaclib::FailPolicy::FirstFail>(cell);
  } else {
    Dispatch<yaclib::FailPolicy::None>(cell);
  }
}

}  // namespace vxh
