// Harness `wait_group` (C16): actors (Done on their own fibers, attached and consumed futures completed
// by producer fibers, Add while the count is non-zero) against waiters (Wait, WaitFor, WaitUntil,
// co_await inline / sticky / on an executor) registering at any moment, plus a waiter arriving after
// zero; and the bare OneShotEvent.
#include "common.hpp"

#include <yaclib/algo/one_shot_event.hpp>
#include <yaclib/algo/wait_group.hpp>
#include <yaclib/async/contract.hpp>
#include <yaclib/coro/await.hpp>
#include <yaclib/coro/future.hpp>
#include <yaclib/coro/on.hpp>

#include <yaclib_std/chrono>
#include <yaclib_std/thread>

namespace vxh {

const char* const kName = "wait_group";
const char* const kProperty = "C16";

namespace {

using T = vx::Tracked;
using E = yaclib::StopError;
constexpr std::uint64_t kHour = 3600ULL * 1000000000ULL;

class Ex final : public yaclib::IExecutor {
 public:
  Type Tag() const noexcept final {
    return Type::Custom;
  }
  bool Alive() const noexcept final {
    return true;
  }
  void Submit(yaclib::Job& job) noexcept final {
    ExecScope scope{this};
    job.Call();
  }
};

struct World {
  yaclib::WaitGroup<> wg{0};
  vx::Shared started{400};   // actors that have started their final Done / Set
  vx::Shared released{401};  // waiters released
  int actors = 0;
  Ex e0, e1;
};

void Released(World& w, const char* who) {
  const int s = w.started.Get();
  VX_EXPECT(s == w.actors, "released-only-at-zero", "%s was released when only %d of the %d actors had started their final Done/Set", who,
            s, w.actors);
  w.released.Add(1);
}

yaclib::Future<> CoroWaiter(World& w, const std::string kind) {
  if (kind == "co-sticky") {
    co_await yaclib::On(w.e0);
    co_await w.wg.AwaitSticky();
    VX_EXPECT(CurrentExecutorTag() == &w.e0, "resumes-on-executor", "AwaitSticky resumed outside the coroutine's own executor");
  } else if (kind == "co-on") {
    co_await w.wg.AwaitOn(w.e1);
    VX_EXPECT(CurrentExecutorTag() == &w.e1, "resumes-on-executor", "AwaitOn(e) resumed outside e");
  } else {
    co_await w.wg;
  }
  Released(w, kind.c_str());
  co_return{};
}

void Waiter(World& w, const std::string& kind) {
  if (kind == "Wait") {
    w.wg.Wait();
    Released(w, "Wait");
  } else if (kind == "WaitFor" || kind == "WaitUntil") {
    const std::uint64_t deadline = vx::VirtualNow() + kHour;
    const bool r = kind == "WaitFor" ? w.wg.WaitFor(std::chrono::hours{1})
                                     : w.wg.WaitUntil(yaclib_std::chrono::steady_clock::now() + std::chrono::hours{1});
    if (r) {
      Released(w, kind.c_str());
    } else {
      VX_EXPECT(vx::VirtualNow() >= deadline, "false-only-after-deadline", "%s returned false at virtual time %llu, before its deadline %llu",
                kind.c_str(), static_cast<unsigned long long>(vx::VirtualNow()), static_cast<unsigned long long>(deadline));
      vx::Outcome("%s=false ", kind.c_str());
      // a timed-out waiter may wait again
      w.wg.Wait();
      Released(w, "Wait after timeout");
    }
  } else {
    auto f = CoroWaiter(w, kind);
    std::ignore = std::move(f).Get();
  }
}

void RunGroup(const vx::Cell& cell) {
  ResetExecCtx();
  const std::string& acts = cell.Str("act");  // letters: D Done fiber, A attached future, C consumed future, P Add+Done pair
  const std::string wk[2] = {cell.Str("w0"), cell.Str("w1")};
  const int nw = wk[1].empty() ? 1 : 2;
  Seen attached_seen;
  {
    World w;
    w.actors = static_cast<int>(acts.size());
    int preset = 0;
    for (char a : acts) {
      preset += (a == 'D' || a == 'P') ? 1 : 0;
    }
    w.wg.Add(static_cast<std::size_t>(preset));
    yaclib::Future<T, E> attached;
    yaclib::Promise<T, E> attached_p, consumed_p;
    // every Add (also the implicit one of Attach / Consume) happens before any actor can bring the count to zero
    for (char a : acts) {
      if (a == 'A') {
        auto [f, p] = yaclib::MakeContract<T, E>();
        attached = std::move(f);
        attached_p = std::move(p);
        w.wg.Attach(attached);
      } else if (a == 'C') {
        auto [f, p] = yaclib::MakeContract<T, E>();
        consumed_p = std::move(p);
        w.wg.Consume(std::move(f));
      }
    }
    std::vector<yaclib_std::thread> ts;
    ts.reserve(8);
    for (char a : acts) {
      if (a == 'D') {
        ts.emplace_back([&w] {
          w.started.Add(1);
          w.wg.Done();
        });
      } else if (a == 'P') {
        // Add is only legal while the count is non-zero: this actor still owns one unit
        ts.emplace_back([&w] {
          w.wg.Add(1);
          w.wg.Done();
          w.started.Add(1);
          w.wg.Done();
        });
      } else if (a == 'A') {
        ts.emplace_back([&w, p = std::move(attached_p)]() mutable {
          w.started.Add(1);
          std::move(p).Set(T{5});
        });
      } else {
        ts.emplace_back([&w, p = std::move(consumed_p)]() mutable {
          w.started.Add(1);
          std::move(p).Set(T{6});
        });
      }
    }
    if (attached.Valid()) {
      const bool ready = attached.Ready();
      if (ready) {
        VX_EXPECT(w.started.Get() > 0, "attached-not-ready-early", "an attached future reports Ready before any producer started");
      }
    }
    for (int i = 0; i < nw; ++i) {
      ts.emplace_back([&w, &wk, i] {
        Waiter(w, wk[i]);
      });
    }
    for (auto& t : ts) {
      t.join();
    }
    VX_EXPECT(w.wg.Count() == 0, "count-zero", "the count is %zu after every actor finished", w.wg.Count());
    // a waiter arriving after zero is released at once
    const std::string& late = cell.Str("late");
    if (!late.empty()) {
      Waiter(w, late);
    }
    VX_EXPECT(w.released.Get() == nw + (late.empty() ? 0 : 1), "released-exactly-once", "%d waiters were released, %d waited",
              w.released.Get(), nw + (late.empty() ? 0 : 1));
    if (attached.Valid()) {
      VX_EXPECT(attached.Ready(), "attached-ready-after", "an attached future is not Ready after its producer completed it");
      auto r = std::move(attached).Get();
      Observe(attached_seen, r);
      VX_EXPECT(attached_seen.state == 'V' && attached_seen.code == 5, "attached-keeps-result", "the attached future holds (%c,%d)",
                attached_seen.state, attached_seen.code);
    }
  }
}

struct EvJob final : yaclib::Job {
  int calls = 0;
  vx::Shared* set_started = nullptr;
  void Call() noexcept final {
    ++calls;
    VX_EXPECT(set_started->Get() == 1, "released-only-at-zero", "a job registered on the event was called before Set started");
  }
};

void RunEvent(const vx::Cell& cell) {
  yaclib::OneShotEvent ev;
  vx::Shared set_started{410};
  EvJob jobs[2];
  bool added[2] = {false, false};
  const std::string& form = cell.Str("form");
  {
    std::vector<yaclib_std::thread> ts;
    ts.reserve(3);
    for (int i = 0; i < 2; ++i) {
      jobs[i].set_started = &set_started;
      ts.emplace_back([&, i] {
        if (form == "tryadd") {
          added[i] = ev.TryAdd(jobs[i]);
          if (!added[i]) {
            VX_EXPECT(set_started.Get() == 1, "released-only-at-zero", "TryAdd refused a job before Set started");
          }
        } else {
          ev.Wait();
          VX_EXPECT(set_started.Get() == 1, "released-only-at-zero", "OneShotEvent::Wait returned before Set started");
        }
      });
    }
    ts.emplace_back([&] {
      set_started.Set(1);
      ev.Set();
    });
    for (auto& t : ts) {
      t.join();
    }
  }
  VX_EXPECT(ev.Ready(), "event-ready", "the event is not Ready after Set");
  for (int i = 0; i < 2; ++i) {
    VX_EXPECT(jobs[i].calls == (added[i] ? 1 : 0), "released-exactly-once", "job %d: TryAdd returned %d, called %d time(s)", i,
              added[i] ? 1 : 0, jobs[i].calls);
  }
  EvJob late;
  late.set_started = &set_started;
  VX_EXPECT(!ev.TryAdd(late), "event-ready", "TryAdd accepted a job after Set");
  ev.Reset();
  VX_EXPECT(!ev.Ready(), "event-reset", "the event is still Ready after Reset");
}

}  // namespace

std::vector<std::string> Cells(int tier) {
  std::vector<std::string> cells;
  const char* const waiters[] = {"Wait", "WaitFor", "WaitUntil", "co-inline", "co-sticky", "co-on"};
  for (const char* act : {"D", "DD", "A", "C", "DA", "DC", "AC", "P", "PD"}) {
    for (const char* w0 : waiters) {
      cells.push_back(std::string{"kind=group,act="} + act + ",w0=" + w0 + ",late=" + (std::string{w0} == "Wait" ? "co-inline" : "Wait"));
    }
    if (tier > 0 || std::string{act}.size() == 1) {
      for (const char* w0 : {"Wait", "WaitFor", "co-inline"}) {
        for (const char* w1 : {"Wait", "co-inline", "co-on", "WaitFor"}) {
          cells.push_back(std::string{"kind=group,act="} + act + ",w0=" + w0 + ",w1=" + w1 + ",late=co-sticky");
        }
      }
    }
  }
  cells.push_back("kind=event,form=tryadd");
  cells.push_back("kind=event,form=wait");
  return cells;
}

bool CellBounds(const vx::Cell& cell, int tier, vx::Bounds& b) {
  const int actors = static_cast<int>(cell.Str("act").size());
  const int fibers = actors + (cell.Str("w1").empty() ? 1 : 2);
  const std::string ws = cell.Str("w0") + cell.Str("w1");
  b.T = ws.find("WaitFor") != std::string::npos || ws.find("WaitUntil") != std::string::npos ? 1 : 0;
  b.S = 1;
  const bool timed = b.T != 0;
  const bool two_waiters = !cell.Str("w1").empty();
  if (cell.Is("kind", "event")) {
    b.P = tier == 0 ? 3 : 99;
  } else if (two_waiters && timed) {
    b.P = tier == 0 ? 1 : 2;  // calibrated: mutex/cv based timed waiters multiply the free choices
  } else if (fibers <= 2) {
    b.P = tier == 0 ? 3 : 99;
  } else if (fibers == 3) {
    b.P = tier == 0 ? 2 : 3;
  } else {
    b.P = 2;
  }
  return true;
}

void Body(const vx::Cell& cell) {
  if (cell.Is("kind", "event")) {
    RunEvent(cell);
  } else {
    RunGroup(cell);
  }
}

}  // namespace vxh
