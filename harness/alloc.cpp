// C20 (second part): allocation counts of combinators, waits, Get and strand submission, enumerated
// over input counts n = 1..8, fail policies and input forms.  Single-threaded.
#include "common.hpp"

#include <yaclib/async/contract.hpp>
#include <yaclib/async/join.hpp>
#include <yaclib/async/make.hpp>
#include <yaclib/async/wait.hpp>
#include <yaclib/async/wait_for.hpp>
#include <yaclib/async/wait_until.hpp>
#include <yaclib/async/when_all.hpp>
#include <yaclib/async/when_any.hpp>
#include <yaclib/exe/strand.hpp>

#include <chrono>
#include <string>
#include <vector>

namespace vx {
bool SeqFailed();
const char* SeqOracle();
const char* SeqText();
void SeqReset();
extern std::uint64_t gAllocCount;
extern std::int64_t gAllocLive;
extern int gAllocPause;
}  // namespace vx

namespace {

using T = vx::Tracked;
using E = yaclib::StopError;
using yaclib::FailPolicy;

struct Pause {
  Pause() {
    ++vx::gAllocPause;
  }
  ~Pause() {
    --vx::gAllocPause;
  }
};

std::vector<std::string> gFindings;
std::vector<std::string> gSamples;
std::uint64_t gCases = 0, gOps = 0;

void Finding(const std::string& oracle, const std::string& program, const std::string& text) {
  Pause p;
  if (gFindings.size() < 60) {
    gFindings.push_back("{\"oracle\":\"" + oracle + "\",\"program\":\"" + program + "\",\"text\":\"" + text + "\"}");
  }
}

// Runs `combine(futures)` for n = 1..8 inputs; the number of allocations must be the same for every
// n >= 2 (a constant independent of the number of inputs) and small.
template <typename MakeInputs, typename Combine>
void Combinator(const std::string& name, MakeInputs make, Combine combine, int max_const) {
  int counts[9] = {0};
  for (int n = 1; n <= 8; ++n) {
    vx::SeqReset();
    ++gCases;
    const std::int64_t live0 = vx::gAllocLive;
    {
      std::vector<yaclib::Promise<T, E>> ps;
      decltype(make(ps, n)) inputs;
      {
        Pause p;
        inputs = make(ps, n);
      }
      const std::uint64_t a0 = vx::gAllocCount;
      auto out = combine(inputs);
      // the blocks allocated while the inputs complete (the output is built then) belong to the combinator too
      for (int i = 0; i < n; ++i) {
        if (ps[i].Valid()) {
          std::move(ps[i]).Set(T{i});
        }
      }
      counts[n] = static_cast<int>(vx::gAllocCount - a0);
      ++gOps;
      {
        Pause p;
        std::move(out).Detach();
      }
    }
    if (vx::gAllocLive != live0) {
      Finding("alloc:leak", name + " n=" + std::to_string(n), std::to_string(vx::gAllocLive - live0) + " blocks still live");
    }
    if (vx::SeqFailed()) {
      Finding(vx::SeqOracle(), name + " n=" + std::to_string(n), vx::SeqText());
    }
  }
  std::string row;
  for (int n = 1; n <= 8; ++n) {
    row += (n > 1 ? "," : "") + std::to_string(counts[n]);
  }
  for (int n = 3; n <= 8; ++n) {
    if (counts[n] != counts[2]) {
      Finding("alloc:combinator-not-constant", name,
              "allocations for n=1..8 inputs: " + row + " (must not depend on the number of inputs)");
      break;
    }
  }
  if (counts[2] > max_const) {
    Finding("alloc:combinator-bound", name, "allocations for n=1..8 inputs: " + row + " exceed the bound " + std::to_string(max_const));
  }
  if (gSamples.size() < 8) {
    Pause p;
    gSamples.push_back(name + " allocations for n=1..8: " + row);
  }
}

std::vector<yaclib::Future<T, E>> MakeUnique(std::vector<yaclib::Promise<T, E>>& ps, int n) {
  std::vector<yaclib::Future<T, E>> fs;
  fs.reserve(8);
  ps.reserve(8);
  for (int i = 0; i < n; ++i) {
    auto [f, p] = yaclib::MakeContract<T, E>();
    fs.push_back(std::move(f));
    ps.push_back(std::move(p));
  }
  return fs;
}
std::vector<yaclib::Future<T, E>> MakeReady(std::vector<yaclib::Promise<T, E>>& ps, int n) {
  std::vector<yaclib::Future<T, E>> fs;
  fs.reserve(8);
  ps.resize(8);
  for (int i = 0; i < n; ++i) {
    fs.push_back(yaclib::MakeFuture<T, E>(T{i}));
  }
  return fs;
}

template <FailPolicy P>
void Combinators(const char* pname) {
  for (int ready = 0; ready < 2; ++ready) {
    auto make = ready ? &MakeReady : &MakeUnique;
    const std::string suffix = std::string{"<"} + pname + (ready ? ",ready inputs>" : ",pending inputs>");
    // dynamic forms
    if constexpr (P != FailPolicy::LastFail) {
      // the output vector itself is the single block that grows with n: it is allocated when the output is
      // built, not by the combinator call (paused region), so the call's count must be constant
      Combinator("WhenAll(begin,end)" + suffix, make, [](auto& in) {
        return yaclib::WhenAll<P>(in.begin(), in.end());
      }, 4);
      Combinator("Join(begin,end)" + suffix, make, [](auto& in) {
        return yaclib::Join<P>(in.begin(), in.end());
      }, 3);
    }
    Combinator("WhenAny(begin,end)" + suffix, make, [](auto& in) {
      return yaclib::WhenAny<P>(in.begin(), in.end());
    }, 3);
  }
}

void Waits() {
  for (int n = 1; n <= 8; ++n) {
    for (int kind = 0; kind < 3; ++kind) {
      for (int form = 0; form < 2; ++form) {
        vx::SeqReset();
        ++gCases;
        std::vector<yaclib::Promise<T, E>> ps;
        std::vector<yaclib::Future<T, E>> fs;
        {
          Pause p;
          fs = MakeReady(ps, n);
        }
        const std::uint64_t a0 = vx::gAllocCount;
        bool ok = true;
        if (form == 0) {
          if (kind == 0) {
            yaclib::Wait(fs.begin(), fs.end());
          } else if (kind == 1) {
            ok = yaclib::WaitFor(std::chrono::milliseconds{1}, fs.begin(), fs.end());
          } else {
            ok = yaclib::WaitUntil(std::chrono::steady_clock::now() + std::chrono::milliseconds{1}, fs.begin(), fs.size());
          }
        } else {
          // variadic forms up to 4
          if (n == 1) {
            kind == 0 ? yaclib::Wait(fs[0]) : void(ok = kind == 1 ? yaclib::WaitFor(std::chrono::milliseconds{1}, fs[0])
                                                                  : yaclib::WaitUntil(std::chrono::steady_clock::now(), fs[0]));
          } else if (n == 2) {
            kind == 0 ? yaclib::Wait(fs[0], fs[1])
                      : void(ok = kind == 1 ? yaclib::WaitFor(std::chrono::milliseconds{1}, fs[0], fs[1])
                                            : yaclib::WaitUntil(std::chrono::steady_clock::now(), fs[0], fs[1]));
          } else if (n == 4) {
            kind == 0 ? yaclib::Wait(fs[0], fs[1], fs[2], fs[3])
                      : void(ok = kind == 1 ? yaclib::WaitFor(std::chrono::milliseconds{1}, fs[0], fs[1], fs[2], fs[3])
                                            : yaclib::WaitUntil(std::chrono::steady_clock::now(), fs[0], fs[1], fs[2], fs[3]));
          } else {
            continue;
          }
        }
        const int count = static_cast<int>(vx::gAllocCount - a0);
        ++gOps;
        const char* kn[] = {"Wait", "WaitFor", "WaitUntil"};
        if (count != 0 || !ok) {
          Finding("alloc:wait", std::string{kn[kind]} + (form ? " variadic" : " iterator") + " n=" + std::to_string(n),
                  std::to_string(count) + " allocations (must be 0), returned " + (ok ? "true" : "false"));
        }
        // timed-out form over pending futures: still no allocation
        if (kind != 0 && form == 0) {
          std::vector<yaclib::Promise<T, E>> ps2;
          std::vector<yaclib::Future<T, E>> fs2;
          {
            Pause p;
            fs2 = MakeUnique(ps2, n);
          }
          const std::uint64_t b0 = vx::gAllocCount;
          const bool r = kind == 1 ? yaclib::WaitFor(std::chrono::microseconds{50}, fs2.begin(), fs2.end())
                                   : yaclib::WaitUntil(std::chrono::steady_clock::now(), fs2.begin(), fs2.size());
          const int c2 = static_cast<int>(vx::gAllocCount - b0);
          ++gOps;
          if (c2 != 0 || r) {
            Finding("alloc:wait", std::string{kn[kind]} + " (timing out) n=" + std::to_string(n),
                    std::to_string(c2) + " allocations (must be 0), returned " + (r ? "true" : "false"));
          }
          Pause p;
          for (auto& p2 : ps2) {
            std::move(p2).Set(T{1});
          }
          fs2.clear();
        }
        Pause p;
        fs.clear();
      }
    }
  }
}

void GetAndStrand() {
  {
    vx::SeqReset();
    ++gCases;
    yaclib::Future<T, E> f;
    {
      Pause p;
      f = yaclib::MakeFuture<T, E>(T{1});
    }
    const std::uint64_t a0 = vx::gAllocCount;
    auto r = std::move(f).Get();
    const int c = static_cast<int>(vx::gAllocCount - a0);
    ++gOps;
    if (c != 0) {
      Finding("alloc:get", "Future::Get", std::to_string(c) + " allocations (must be 0)");
    }
    Pause p;
    (void)r;
  }
  {
    vx::SeqReset();
    ++gCases;
    vxh::TestExecutor under{vxh::TestExecutor::kQueue};
    yaclib::IExecutorPtr strand;
    vxh::CountedJob jobs[4];
    {
      Pause p;
      strand = yaclib::MakeStrand(yaclib::IExecutorPtr{&under});
    }
    for (int i = 0; i < 4; ++i) {
      const std::uint64_t a0 = vx::gAllocCount;
      strand->Submit(jobs[i]);
      const int c = static_cast<int>(vx::gAllocCount - a0);
      ++gOps;
      if (c != 0) {
        Finding("alloc:strand-submit", "Strand::Submit #" + std::to_string(i), std::to_string(c) + " allocations (must be 0)");
      }
      if (i == 1) {
        const std::uint64_t b0 = vx::gAllocCount;
        under.Drain();
        if (vx::gAllocCount != b0) {
          Finding("alloc:strand-submit", "Strand batch execution", "allocated while running the batch");
        }
      }
    }
    under.Drain();
    Pause p;
    strand = nullptr;
    for (auto& j : jobs) {
      if (j.calls != 1) {
        Finding("strand:none-lost", "Strand::Submit", "a job was not called exactly once");
      }
    }
  }
}

}  // namespace

int main(int argc, char** argv) {
  std::string out;
  for (int i = 1; i < argc; ++i) {
    std::string a = argv[i];
    if (a == "--out" && i + 1 < argc) {
      out = argv[++i];
    } else if (i + 1 < argc) {
      ++i;
    }
  }
  Combinators<FailPolicy::FirstFail>("FirstFail");
  Combinators<FailPolicy::None>("None");
  Combinators<FailPolicy::LastFail>("LastFail");
  Waits();
  GetAndStrand();
  Pause p;
  std::string js = "{\"harness\":\"alloc\",\"property\":\"C20\",\"cells\":[{\"cell\":\"combinators,waits,get,strand\",";
  char b[300];
  std::snprintf(b, sizeof(b),
                "\"executions\":%llu,\"nodes\":%llu,\"transitions\":%llu,\"distinct_traces\":%llu,\"distinct_outcomes\":%llu,"
                "\"exhaustive\":true,\"failing_executions\":%llu,",
                static_cast<unsigned long long>(gCases), static_cast<unsigned long long>(gCases),
                static_cast<unsigned long long>(gOps), static_cast<unsigned long long>(gCases + 1),
                static_cast<unsigned long long>(gSamples.size()), static_cast<unsigned long long>(gFindings.size()));
  js += b;
  js += "\"sample_programs\":[";
  for (std::size_t i = 0; i < gSamples.size(); ++i) {
    js += (i ? ",\"" : "\"") + gSamples[i] + "\"";
  }
  js += "],\"violations\":[";
  for (std::size_t i = 0; i < gFindings.size(); ++i) {
    js += (i ? "," : "") + gFindings[i];
  }
  js += "]}]}\n";
  if (out.empty()) {
    std::fputs(js.c_str(), stdout);
  } else {
    FILE* f = std::fopen(out.c_str(), "w");
    std::fputs(js.c_str(), f);
    std::fclose(f);
  }
  return gFindings.empty() ? 0 : 1;
}
