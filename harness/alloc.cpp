// C20 (second part): allocation counts of combinators, waits, Get and strand submission, enumerated
// over input counts n = 1..8, fail policies and input forms.  Single-threaded.
#include "common.hpp"

#include <yaclib/async/contract.hpp>
#include <yaclib/async/join.hpp>
#include <yaclib/async/make.hpp>
#include <yaclib/async/wait.hpp>
#include <yaclib/async/wait_for.hpp>
#include <yaclib/async/wait_until.hpp>
#include <yaclib/async/when_all.hpp>
#include <yaclib/async/when_any.hpp>
#include <yaclib/exe/strand.hpp>

#include <chrono>
#include <string>
#include <vector>

#if YACLIB_CORO != 0
#  include <yaclib/async/shared_contract.hpp>
#  include <yaclib/coro/await.hpp>
#  include <yaclib/coro/await_inline.hpp>
#  include <yaclib/coro/await_on.hpp>
#  include <yaclib/coro/await_sticky.hpp>
#  include <yaclib/coro/future.hpp>
#  include <yaclib/coro/shared_future.hpp>
#endif

namespace vx {
bool SeqFailed();
const char* SeqOracle();
const char* SeqText();
void SeqReset();
extern std::uint64_t gAllocCount;
extern std::int64_t gAllocLive;
extern int gAllocPause;
}  // namespace vx

namespace {

using T = vx::Tracked;
using E = yaclib::StopError;
using yaclib::FailPolicy;

struct Pause {
  Pause() {
    ++vx::gAllocPause;
  }
  ~Pause() {
    --vx::gAllocPause;
  }
};

std::vector<std::string> gFindings;
std::vector<std::string> gSamples;
std::uint64_t gCases = 0, gOps = 0;

void Finding(const std::string& oracle, const std::string& program, const std::string& text) {
  Pause p;
  if (gFindings.size() < 60) {
    gFindings.push_back("{\"oracle\":\"" + oracle + "\",\"program\":\"" + program + "\",\"text\":\"" + text + "\"}");
  }
}

// Runs `combine(futures)` for n = 1..8 inputs; the number of allocations must be the same for every
// n >= 2 (a constant independent of the number of inputs) and small.
template <typename MakeInputs, typename Combine>
void Combinator(const std::string& name, MakeInputs make, Combine combine, int max_const) {
  int counts[9] = {0};
  for (int n = 1; n <= 8; ++n) {
    vx::SeqReset();
    ++gCases;
    const std::int64_t live0 = vx::gAllocLive;
    {
      std::vector<yaclib::Promise<T, E>> ps;
      decltype(make(ps, n)) inputs;
      {
        Pause p;
        inputs = make(ps, n);
      }
      const std::uint64_t a0 = vx::gAllocCount;
      auto out = combine(inputs);
      // the blocks allocated while the inputs complete (the output is built then) belong to the combinator too
      for (int i = 0; i < n; ++i) {
        if (ps[i].Valid()) {
          std::move(ps[i]).Set(T{i});
        }
      }
      counts[n] = static_cast<int>(vx::gAllocCount - a0);
      ++gOps;
      {
        Pause p;
        std::move(out).Detach();
      }
    }
    if (vx::gAllocLive != live0) {
      Finding("alloc:leak", name + " n=" + std::to_string(n), std::to_string(vx::gAllocLive - live0) + " blocks still live");
    }
    if (vx::SeqFailed()) {
      Finding(vx::SeqOracle(), name + " n=" + std::to_string(n), vx::SeqText());
    }
  }
  std::string row;
  for (int n = 1; n <= 8; ++n) {
    row += (n > 1 ? "," : "") + std::to_string(counts[n]);
  }
  for (int n = 3; n <= 8; ++n) {
    if (counts[n] != counts[2]) {
      Finding("alloc:combinator-not-constant", name,
              "allocations for n=1..8 inputs: " + row + " (must not depend on the number of inputs)");
      break;
    }
  }
  if (counts[2] > max_const) {
    Finding("alloc:combinator-bound", name, "allocations for n=1..8 inputs: " + row + " exceed the bound " + std::to_string(max_const));
  }
  if (gSamples.size() < 8) {
    Pause p;
    gSamples.push_back(name + " allocations for n=1..8: " + row);
  }
}

std::vector<yaclib::Future<T, E>> MakeUnique(std::vector<yaclib::Promise<T, E>>& ps, int n) {
  std::vector<yaclib::Future<T, E>> fs;
  fs.reserve(8);
  ps.reserve(8);
  for (int i = 0; i < n; ++i) {
    auto [f, p] = yaclib::MakeContract<T, E>();
    fs.push_back(std::move(f));
    ps.push_back(std::move(p));
  }
  return fs;
}
std::vector<yaclib::Future<T, E>> MakeReady(std::vector<yaclib::Promise<T, E>>& ps, int n) {
  std::vector<yaclib::Future<T, E>> fs;
  fs.reserve(8);
  ps.resize(8);
  for (int i = 0; i < n; ++i) {
    fs.push_back(yaclib::MakeFuture<T, E>(T{i}));
  }
  return fs;
}

template <FailPolicy P>
void Combinators(const char* pname) {
  for (int ready = 0; ready < 2; ++ready) {
    auto make = ready ? &MakeReady : &MakeUnique;
    const std::string suffix = std::string{"<"} + pname + (ready ? ",ready inputs>" : ",pending inputs>");
    // dynamic forms
    if constexpr (P != FailPolicy::LastFail) {
      // the output vector itself is the single block that grows with n: it is allocated when the output is
      // built, not by the combinator call (paused region), so the call's count must be constant
      Combinator("WhenAll(begin,end)" + suffix, make, [](auto& in) {
        return yaclib::WhenAll<P>(in.begin(), in.end());
      }, 4);
      Combinator("Join(begin,end)" + suffix, make, [](auto& in) {
        return yaclib::Join<P>(in.begin(), in.end());
      }, 3);
    }
    Combinator("WhenAny(begin,end)" + suffix, make, [](auto& in) {
      return yaclib::WhenAny<P>(in.begin(), in.end());
    }, 3);
  }
}

void Waits() {
  for (int n = 1; n <= 8; ++n) {
    for (int kind = 0; kind < 3; ++kind) {
      for (int form = 0; form < 2; ++form) {
        vx::SeqReset();
        ++gCases;
        std::vector<yaclib::Promise<T, E>> ps;
        std::vector<yaclib::Future<T, E>> fs;
        {
          Pause p;
          fs = MakeReady(ps, n);
        }
        const std::uint64_t a0 = vx::gAllocCount;
        bool ok = true;
        if (form == 0) {
          if (kind == 0) {
            yaclib::Wait(fs.begin(), fs.end());
          } else if (kind == 1) {
            ok = yaclib::WaitFor(std::chrono::milliseconds{1}, fs.begin(), fs.end());
          } else {
            ok = yaclib::WaitUntil(std::chrono::steady_clock::now() + std::chrono::milliseconds{1}, fs.begin(), fs.size());
          }
        } else {
          // variadic forms up to 4
          if (n == 1) {
            kind == 0 ? yaclib::Wait(fs[0]) : void(ok = kind == 1 ? yaclib::WaitFor(std::chrono::milliseconds{1}, fs[0])
                                                                  : yaclib::WaitUntil(std::chrono::steady_clock::now(), fs[0]));
          } else if (n == 2) {
            kind == 0 ? yaclib::Wait(fs[0], fs[1])
                      : void(ok = kind == 1 ? yaclib::WaitFor(std::chrono::milliseconds{1}, fs[0], fs[1])
                                            : yaclib::WaitUntil(std::chrono::steady_clock::now(), fs[0], fs[1]));
          } else if (n == 4) {
            kind == 0 ? yaclib::Wait(fs[0], fs[1], fs[2], fs[3])
                      : void(ok = kind == 1 ? yaclib::WaitFor(std::chrono::milliseconds{1}, fs[0], fs[1], fs[2], fs[3])
                                            : yaclib::WaitUntil(std::chrono::steady_clock::now(), fs[0], fs[1], fs[2], fs[3]));
          } else {
            continue;
          }
        }
        const int count = static_cast<int>(vx::gAllocCount - a0);
        ++gOps;
        const char* kn[] = {"Wait", "WaitFor", "WaitUntil"};
        if (count != 0 || !ok) {
          Finding("alloc:wait", std::string{kn[kind]} + (form ? " variadic" : " iterator") + " n=" + std::to_string(n),
                  std::to_string(count) + " allocations (must be 0), returned " + (ok ? "true" : "false"));
        }
        // timed-out form over pending futures: still no allocation
        if (kind != 0 && form == 0) {
          std::vector<yaclib::Promise<T, E>> ps2;
          std::vector<yaclib::Future<T, E>> fs2;
          {
            Pause p;
            fs2 = MakeUnique(ps2, n);
          }
          const std::uint64_t b0 = vx::gAllocCount;
          const bool r = kind == 1 ? yaclib::WaitFor(std::chrono::microseconds{50}, fs2.begin(), fs2.end())
                                   : yaclib::WaitUntil(std::chrono::steady_clock::now(), fs2.begin(), fs2.size());
          const int c2 = static_cast<int>(vx::gAllocCount - b0);
          ++gOps;
          if (c2 != 0 || r) {
            Finding("alloc:wait", std::string{kn[kind]} + " (timing out) n=" + std::to_string(n),
                    std::to_string(c2) + " allocations (must be 0), returned " + (r ? "true" : "false"));
          }
          Pause p;
          for (auto& p2 : ps2) {
            std::move(p2).Set(T{1});
          }
          fs2.clear();
        }
        Pause p;
        fs.clear();
      }
    }
  }
}

void GetAndStrand() {
  {
    vx::SeqReset();
    ++gCases;
    yaclib::Future<T, E> f;
    {
      Pause p;
      f = yaclib::MakeFuture<T, E>(T{1});
    }
    const std::uint64_t a0 = vx::gAllocCount;
    auto r = std::move(f).Get();
    const int c = static_cast<int>(vx::gAllocCount - a0);
    ++gOps;
    if (c != 0) {
      Finding("alloc:get", "Future::Get", std::to_string(c) + " allocations (must be 0)");
    }
    Pause p;
    (void)r;
  }
  {
    vx::SeqReset();
    ++gCases;
    vxh::TestExecutor under{vxh::TestExecutor::kQueue};
    yaclib::IExecutorPtr strand;
    vxh::CountedJob jobs[4];
    {
      Pause p;
      strand = yaclib::MakeStrand(yaclib::IExecutorPtr{&under});
    }
    for (int i = 0; i < 4; ++i) {
      const std::uint64_t a0 = vx::gAllocCount;
      strand->Submit(jobs[i]);
      const int c = static_cast<int>(vx::gAllocCount - a0);
      ++gOps;
      if (c != 0) {
        Finding("alloc:strand-submit", "Strand::Submit #" + std::to_string(i), std::to_string(c) + " allocations (must be 0)");
      }
      if (i == 1) {
        const std::uint64_t b0 = vx::gAllocCount;
        under.Drain();
        if (vx::gAllocCount != b0) {
          Finding("alloc:strand-submit", "Strand batch execution", "allocated while running the batch");
        }
      }
    }
    under.Drain();
    Pause p;
    strand = nullptr;
    for (auto& j : jobs) {
      if (j.calls != 1) {
        Finding("strand:none-lost", "Strand::Submit", "a job was not called exactly once");
      }
    }
  }
}

}  // namespace

#if YACLIB_CORO != 0
// co_await of futures inside an already running coroutine: the allocations between the statement before the
// co_await and the statement after it (the coroutine's own frame was allocated when it was called).
struct CoWorld {
  yaclib::Future<T, E> f[4];
  yaclib::SharedFuture<T, E> s;
  vxh::TestExecutor exec{vxh::TestExecutor::kInline};
  int allocs = -1;
};

yaclib::Future<int, E> Awaiter(CoWorld& w, int form, int n) {
  const std::uint64_t a0 = vx::gAllocCount;
  switch (form) {
    case 0: {
      T v = co_await std::move(w.f[0]);
      (void)v;
    } break;
    case 1: {
      T v = co_await w.s;
      (void)v;
    } break;
    case 2:
      if (n == 1) {
        co_await yaclib::Await(w.f[0]);
      } else if (n == 2) {
        co_await yaclib::Await(w.f[0], w.f[1]);
      } else {
        co_await yaclib::Await(w.f[0], w.f[1], w.f[2], w.f[3]);
      }
      break;
    case 3:
      co_await yaclib::Await(static_cast<yaclib::Future<T, E>*>(w.f), static_cast<std::size_t>(n));
      break;
    case 4:
      if (n == 1) {
        co_await yaclib::AwaitOn(w.exec, w.f[0]);
      } else {
        co_await yaclib::AwaitOn(w.exec, w.f[0], w.f[1]);
      }
      break;
    case 5:
      if (n == 1) {
        co_await yaclib::AwaitSticky(w.f[0]);
      } else {
        co_await yaclib::AwaitSticky(w.f[0], w.f[1]);
      }
      break;
    case 6:
      if (n == 1) {
        co_await yaclib::AwaitInline(w.f[0]);
      } else {
        co_await yaclib::AwaitInline(w.f[0], w.f[1]);
      }
      break;
    default:
      co_await yaclib::Await(w.s, w.f[0]);
      break;
  }
  w.allocs = static_cast<int>(vx::gAllocCount - a0);
  co_return 0;
}

void CoAwaits() {
  const char* const forms[] = {"co_await future&&", "co_await shared", "Await(fs...)", "Await(begin,n)", "AwaitOn(e,fs...)",
                               "AwaitSticky(fs...)", "AwaitInline(fs...)", "Await(shared,future)"};
  for (int form = 0; form < 8; ++form) {
    for (int n : {1, 2, 4}) {
      if ((form <= 1 || form == 7) && n != 1) {
        continue;
      }
      if ((form >= 4 && form <= 6) && n == 4) {
        continue;
      }
      for (int ready = 0; ready < 2; ++ready) {  // already complete / completed while the coroutine is suspended
        vx::SeqReset();
        ++gCases;
        const std::int64_t live0 = vx::gAllocLive;
        {
          CoWorld w;
          std::vector<yaclib::Promise<T, E>> ps;
          yaclib::SharedPromise<T, E> sp;
          {
            Pause p;
            ps.reserve(4);
            for (int i = 0; i < 4; ++i) {
              auto [f, pr] = yaclib::MakeContract<T, E>();
              w.f[i] = std::move(f);
              ps.push_back(std::move(pr));
            }
            auto [sf, spr] = yaclib::MakeSharedContract<T, E>();
            w.s = std::move(sf);
            sp = std::move(spr);
          }
          auto complete = [&] {
            for (auto& pr : ps) {
              std::move(pr).Set(T{3});
            }
            std::move(sp).Set(T{4});
          };
          if (ready != 0) {
            complete();
          }
          yaclib::Future<int, E> out;
          {
            Pause p;  // the frame of the coroutine belongs to the call, not to the co_await inside it
            out = Awaiter(w, form, n);
          }
          if (ready == 0) {
            const std::uint64_t b0 = vx::gAllocCount;
            complete();
            if (vx::gAllocCount != b0) {
              Finding("alloc:co_await", std::string{forms[form]} + " n=" + std::to_string(n) + " pending",
                      std::to_string(vx::gAllocCount - b0) + " allocation(s) while the awaited futures completed and the coroutine resumed (must be 0)");
            }
          }
          ++gOps;
          if (w.allocs != 0) {
            Finding("alloc:co_await", std::string{forms[form]} + " n=" + std::to_string(n) + (ready ? " ready" : " pending"),
                    w.allocs < 0 ? std::string{"the coroutine did not resume"} : std::to_string(w.allocs) + " allocation(s) between the statements around the co_await (must be 0)");
          }
          Pause p;
          (void)std::move(out).Get();
        }
        if (vx::gAllocLive != live0) {
          Finding("alloc:leak", std::string{forms[form]} + " n=" + std::to_string(n), std::to_string(vx::gAllocLive - live0) + " blocks still live");
        }
        if (vx::SeqFailed()) {
          Finding(vx::SeqOracle(), std::string{forms[form]} + " n=" + std::to_string(n), vx::SeqText());
        }
      }
    }
  }
}
#endif

int main(int argc, char** argv) {
  std::string out;
  for (int i = 1; i < argc; ++i) {
    std::string a = argv[i];
    if (a == "--out" && i + 1 < argc) {
      out = argv[++i];
    } else if (i + 1 < argc) {
      ++i;
    }
  }
  Combinators<FailPolicy::FirstFail>("FirstFail");
  Combinators<FailPolicy::None>("None");
  Combinators<FailPolicy::LastFail>("LastFail");
  Waits();
  GetAndStrand();
#if YACLIB_CORO != 0
  CoAwaits();
#endif
  Pause p;
  std::string js = std::string{"{\"harness\":\"alloc\",\"property\":\"C20\",\"cells\":[{\"cell\":\"combinators,waits,get,strand"} +
                   (YACLIB_CORO != 0 ? ",co_await" : "") + "\",";
  char b[300];
  std::snprintf(b, sizeof(b),
                "\"executions\":%llu,\"nodes\":%llu,\"transitions\":%llu,\"distinct_traces\":%llu,\"distinct_outcomes\":%llu,"
                "\"exhaustive\":true,\"failing_executions\":%llu,",
                static_cast<unsigned long long>(gCases), static_cast<unsigned long long>(gCases),
                static_cast<unsigned long long>(gOps), static_cast<unsigned long long>(gCases + 1),
                static_cast<unsigned long long>(gSamples.size()), static_cast<unsigned long long>(gFindings.size()));
  js += b;
  js += "\"sample_programs\":[";
  for (std::size_t i = 0; i < gSamples.size(); ++i) {
    js += (i ? ",\"" : "\"") + gSamples[i] + "\"";
  }
  js += "],\"violations\":[";
  for (std::size_t i = 0; i < gFindings.size(); ++i) {
    js += (i ? "," : "") + gFindings[i];
  }
  js += "]}]}\n";
  if (out.empty()) {
    std::fputs(js.c_str(), stdout);
  } else {
    FILE* f = std::fopen(out.c_str(), "w");
    std::fputs(js.c_str(), f);
    std::fclose(f);
  }
  return gFindings.empty() ? 0 : 1;
}
