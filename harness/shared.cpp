// Harness `shared` (C06): one fiber fulfils a SharedPromise while 2-3 observer fibers each perform
// an observer operation on their own copy of the SharedFuture.
#include "common.hpp"

#include <yaclib/async/connect.hpp>
#include <yaclib/async/make.hpp>
#include <yaclib/async/contract.hpp>
#include <yaclib/async/share.hpp>
#include <yaclib/async/shared_contract.hpp>
#include <yaclib/async/shared_future.hpp>
#include <yaclib/async/split.hpp>
#include <yaclib/async/wait.hpp>

#include <yaclib_std/thread>

namespace vxh {

const char* const kName = "shared";
const char* const kProperty = "C06";

namespace {

using V = vx::Tracked;
using E = yaclib::StopError;
using R = yaclib::Result<V, E>;
using SF = yaclib::SharedFuture<V, E>;

const char* const kOps[] = {"ReadyTouch", "GetConst",   "GetMove", "ThenInline", "ThenE",     "SubInline", "SubE",
                            "Share",      "ShareThen",  "ConnectP", "ConnectSP", "WaitTouch", "CopyDrop",  "drop",
                            "ReadyGet",   "ThenInlineThenGet", "ThenInlineAsync", "ThenEAsync", "ThenInlineAsyncThrow"};
constexpr int kNOps = sizeof(kOps) / sizeof(kOps[0]);

struct Obs {
  Seen seen;
  int want = 1;
  bool ready_hit = false;
  // continuation returning a Future (asynchronous unwrapping on a shared source): what its own future delivered
  bool async = false;
  bool async_throws = false;
  Seen fin;
};

void Expect(const vx::Cell& cell, char& state, int& code) {
  const std::string& set = cell.Str("set");
  state = 'V';
  code = 7;
  if (set == "error" || set == "drop") {
    state = 'E';
    code = -1;
  } else if (set == "exception") {
    state = 'X';
    code = 3;
  }
}

void CheckSeen(const vx::Cell& cell, const Seen& s, int want, const char* who) {
  VX_EXPECT(s.count == want, "observer-exactly-once", "%s observed the result %d time(s), expected %d", who, s.count,
            want);
  if (want == 0 || s.count == 0) {
    return;
  }
  char state;
  int code;
  Expect(cell, state, code);
  VX_EXPECT(s.state == state && s.code == code, "observer-sees-the-value", "%s observed (%c,%d) but (%c,%d) was set", who,
            s.state, s.code, state, code);
}

void Observer(const vx::Cell& cell, const std::string& op, SF sf, Obs& o, TestExecutor& inl, const bool& fulfilled) {
  auto cb = [&o, &fulfilled](const R& r) {
    VX_EXPECT(fulfilled, "observer-after-set", "callback invoked before the SharedPromise was fulfilled");
    Observe(o.seen, r);
  };
  if (op == "ReadyTouch") {
    o.want = 0;
    if (sf.Ready()) {
      o.ready_hit = true;
      VX_EXPECT(fulfilled, "ready-implies-readable", "Ready()==true before the SharedPromise was fulfilled");
      Seen s;
      Observe(s, std::as_const(sf).Touch());
      CheckSeen(cell, s, 1, "Touch() after Ready()==true");
    }
  } else if (op == "ReadyGet") {
    if (sf.Ready()) {
      o.ready_hit = true;
      VX_EXPECT(fulfilled, "ready-implies-readable", "Ready()==true before the SharedPromise was fulfilled");
    }
    Observe(o.seen, std::as_const(sf).Get());
  } else if (op == "GetConst") {
    const R& r = std::as_const(sf).Get();
    VX_EXPECT(fulfilled, "observer-after-set", "Get() const& returned before the SharedPromise was fulfilled");
    Observe(o.seen, r);
  } else if (op == "GetMove") {
    R r = std::move(sf).Get();
    VX_EXPECT(fulfilled, "observer-after-set", "Get() && returned before the SharedPromise was fulfilled");
    Observe(o.seen, r);
  } else if (op == "ThenInline") {
    sf.ThenInline(cb).Detach();
  } else if (op == "ThenInlineThenGet") {
    // the continuation's own future is consumed by a blocking Get on this fiber
    auto f = sf.ThenInline([&o, &fulfilled](const R& r) {
      VX_EXPECT(fulfilled, "observer-after-set", "callback invoked before the SharedPromise was fulfilled");
      Observe(o.seen, r);
      return 1;
    });
    auto r2 = std::move(f).Get();
    VX_EXPECT(r2.State() == yaclib::ResultState::Value, "observer-sees-the-value", "continuation result lost");
  } else if (op == "ThenInlineAsync" || op == "ThenEAsync") {
    // value callback returning a Future: runs on success, is skipped (the failure passes through) otherwise
    o.async = true;
    o.want = cell.Is("set", "value") ? 1 : 0;
    auto step = [&o, &fulfilled](const V& v) {
      VX_EXPECT(fulfilled, "observer-after-set", "callback invoked before the SharedPromise was fulfilled");
      ++o.seen.count;
      o.seen.state = 'V';
      o.seen.code = v.Get();
      return yaclib::MakeFuture<V, E>(V{v.Get() + 1});
    };
    auto fin = [&o](R&& r) {
      Observe(o.fin, r);
    };
    if (op == "ThenInlineAsync") {
      sf.ThenInline(step).DetachInline(fin);
    } else {
      sf.Then(inl, step).DetachInline(fin);
    }
  } else if (op == "ThenInlineAsyncThrow") {
    o.async = true;
    o.async_throws = true;
    auto f = sf.ThenInline([&o, &fulfilled](const R& r) -> yaclib::Future<V, E> {
      VX_EXPECT(fulfilled, "observer-after-set", "callback invoked before the SharedPromise was fulfilled");
      Observe(o.seen, r);
      throw Boom{9};
    });
    std::move(f).DetachInline([&o](R&& r) {
      Observe(o.fin, r);
    });
  } else if (op == "ThenE") {
    sf.Then(inl, cb).Detach();
  } else if (op == "SubInline") {
    sf.SubscribeInline(cb);
  } else if (op == "SubE") {
    sf.Subscribe(inl, cb);
  } else if (op == "Share") {
    auto f = yaclib::Share(sf);
    R r = std::move(f).Get();
    VX_EXPECT(fulfilled, "observer-after-set", "Share(sf).Get() returned before the SharedPromise was fulfilled");
    Observe(o.seen, r);
  } else if (op == "ShareThen") {
    yaclib::Share(sf).DetachInline([&o, &fulfilled](R&& r) {
      VX_EXPECT(fulfilled, "observer-after-set", "callback invoked before the SharedPromise was fulfilled");
      Observe(o.seen, r);
    });
  } else if (op == "ConnectP") {
    auto [f, p] = yaclib::MakeContract<V, E>();
    yaclib::Connect(sf, std::move(p));
    R r = std::move(f).Get();
    Observe(o.seen, r);
  } else if (op == "ConnectSP") {
    auto [f2, p2] = yaclib::MakeSharedContract<V, E>();
    yaclib::Connect(sf, std::move(p2));
    Observe(o.seen, std::as_const(f2).Get());
  } else if (op == "WaitTouch") {
    yaclib::Wait(sf);
    VX_EXPECT(fulfilled, "observer-after-set", "Wait(sf) returned before the SharedPromise was fulfilled");
    VX_EXPECT(sf.Ready(), "wait-implies-ready", "Wait(sf) returned but Ready() is false");
    Observe(o.seen, std::as_const(sf).Touch());
  } else if (op == "CopyDrop") {
    o.want = 0;
    SF copy = sf;
    vx::Point();
    copy = SF{};
  } else if (op == "drop") {
    o.want = 0;
  }
  // `sf` (this observer's copy) is destroyed here
}

void RunCell(const vx::Cell& cell) {
  ResetExecCtx();
  const int n = cell.Int("n", 2);
  std::string ops[3] = {cell.Str("o0"), cell.Str("o1"), cell.Str("o2")};
  Obs obs[3];
  TestExecutor inl[3] = {TestExecutor{TestExecutor::kInline}, TestExecutor{TestExecutor::kInline},
                         TestExecutor{TestExecutor::kInline}};
  bool fulfilled = false;
  {
    auto [sf, sp] = yaclib::MakeSharedContract<V, E>();
    std::vector<yaclib_std::thread> threads;
    threads.reserve(4);
    for (int i = 0; i < n; ++i) {
      threads.emplace_back([&, i, copy = sf]() mutable {
        Observer(cell, ops[i], std::move(copy), obs[i], inl[i], fulfilled);
      });
    }
    if (!cell.Is("keep", "1")) {
      sf = SF{};
    }
    threads.emplace_back([&cell, &fulfilled, sp = std::move(sp)]() mutable {
      const std::string& set = cell.Str("set");
      fulfilled = true;  // marks "the producer has started fulfilling": nothing may be observed before
      if (set == "value") {
        std::move(sp).Set(V{7});
      } else if (set == "error") {
        std::move(sp).Set(yaclib::StopTag{});
      } else if (set == "exception") {
        std::move(sp).Set(std::make_exception_ptr(Boom{3}));
      } else {
        // drop: the destructor fulfils with StopError
        auto dead = std::move(sp);
      }
    });
    for (auto& t : threads) {
      t.join();
    }
    if (cell.Is("keep", "1")) {
      // a bystander copy that outlived everything still reads the value
      VX_EXPECT(sf.Ready(), "ready-after-set", "bystander copy is not Ready after fulfilment");
      Seen s;
      Observe(s, std::as_const(sf).Get());
      CheckSeen(cell, s, 1, "bystander copy after fulfilment");
    }
  }
  for (int i = 0; i < n; ++i) {
    char who[32];
    std::snprintf(who, sizeof(who), "observer %d (%s)", i, ops[i].c_str());
    CheckSeen(cell, obs[i].seen, obs[i].want, who);
    if (obs[i].async) {
      // the future of the asynchronous continuation: the unwrapped inner value, the thrown exception, or the
      // source's failure passed through
      char st;
      int code;
      Expect(cell, st, code);
      if (obs[i].async_throws) {
        st = 'X';
        code = 9;
      } else if (st == 'V') {
        code = 8;
      }
      VX_EXPECT(obs[i].fin.count == 1, "observer-exactly-once", "%s: the continuation's own future delivered %d time(s)", who, obs[i].fin.count);
      VX_EXPECT(obs[i].fin.count != 1 || (obs[i].fin.state == st && obs[i].fin.code == code), "observer-sees-the-value",
                "%s: the continuation's own future delivered (%c,%d), expected (%c,%d)", who, obs[i].fin.state, obs[i].fin.code, st, code);
    }
    vx::Outcome("%d:%c%d%s ", i, obs[i].seen.state, obs[i].seen.code, obs[i].ready_hit ? "r" : "");
  }
}

}  // namespace

std::vector<std::string> Cells(int tier) {
  std::vector<std::string> cells;
  for (const char* set : {"value", "drop", "exception"}) {
    for (const char* keep : {"0", "1"}) {
      for (int a = 0; a < kNOps; ++a) {
        for (int b = a; b < kNOps; ++b) {
          const bool async_op = std::string{kOps[a]}.find("Async") != std::string::npos || std::string{kOps[b]}.find("Async") != std::string::npos;
          if (tier == 0 && std::string{set} == "exception" && !(a == b || a == 0 || async_op)) {
            continue;
          }
          cells.push_back(std::string{"n=2,set="} + set + ",keep=" + keep + ",o0=" + kOps[a] + ",o1=" + kOps[b]);
        }
      }
    }
  }
  if (tier > 0) {
    // three observers over the operations that interact through the callback list and the reference count
    const char* const three[] = {"ReadyTouch", "GetMove", "ThenInline", "SubInline", "Share", "WaitTouch", "drop", "ThenInlineAsync"};
    for (const char* keep : {"0", "1"}) {
      for (const char* a : three) {
        for (const char* b : three) {
          for (const char* c : three) {
            if (std::string{a} <= b && std::string{b} <= c) {
              cells.push_back(std::string{"n=3,set=value,keep="} + keep + ",o0=" + a + ",o1=" + b + ",o2=" + c);
            }
          }
        }
      }
    }
  }
  return cells;
}

bool CellBounds(const vx::Cell& cell, int tier, vx::Bounds& b) {
  if (cell.Int("n", 2) == 3) {
    b.P = 2;
    b.S = 1;
  } else {
    b.P = tier == 0 ? 2 : 3;
    b.S = 1;
  }
  b.T = 0;
  return true;
}

void Body(const vx::Cell& cell) {
  RunCell(cell);
}

}  // namespace vxh
