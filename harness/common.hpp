// Shared pieces of the explorer harnesses: instrumented executors and jobs, observation records.
#pragma once

#include "../engine/oracle.hpp"
#include "../engine/vx.hpp"

#include <yaclib/exe/executor.hpp>
#include <yaclib/exe/job.hpp>
#include <yaclib/util/result.hpp>

#include <exception>
#include <stdexcept>
#include <string>

namespace vxh {

// ---- "which executor am I running under" --------------------------------------------------------
struct ExecCtx {
  static constexpr int kFibers = 64;
  static constexpr int kDepth = 8;
  const void* stack[kFibers][kDepth];
  int depth[kFibers];
};
inline ExecCtx& Ctx() {
  static ExecCtx ctx{};
  return ctx;
}
inline void ResetExecCtx() {
  std::memset(&Ctx(), 0, sizeof(ExecCtx));
}
inline const void* CurrentExecutorTag() {
  const int self = vx::Self();
  if (self < 0) {
    return nullptr;
  }
  auto& c = Ctx();
  return c.depth[self] == 0 ? nullptr : c.stack[self][c.depth[self] - 1];
}
struct ExecScope {
  int self;
  explicit ExecScope(const void* tag) : self{vx::Self()} {
    auto& c = Ctx();
    if (self >= 0 && c.depth[self] < ExecCtx::kDepth) {
      c.stack[self][c.depth[self]++] = tag;
    }
  }
  ~ExecScope() {
    auto& c = Ctx();
    if (self >= 0 && c.depth[self] > 0) {
      --c.depth[self];
    }
  }
};

// ---- instrumented executor -----------------------------------------------------------------------
// Tag Custom.  Either calls the job inside Submit (kInline) or queues it until Drain (kQueue).
// From the `reject_from`-th Submit on (0-based) it refuses work: Alive() is false and jobs are Dropped.
class TestExecutor final : public yaclib::IExecutor {
 public:
  enum Mode { kInline, kQueue };
  explicit TestExecutor(Mode mode, int reject_from = -1) : _mode{mode}, _reject_from{reject_from} {
  }

  Type Tag() const noexcept final {
    return Type::Custom;
  }
  bool Alive() const noexcept final {
    return _reject_from < 0 || submits < _reject_from;
  }
  void Submit(yaclib::Job& job) noexcept final {
    const int k = submits++;
    if (_reject_from >= 0 && k >= _reject_from) {
      ++drops;
      ExecScope scope{nullptr};
      job.Drop();
      return;
    }
    if (_mode == kInline) {
      Run(job);
    } else {
      VX_EXPECT(_n < kCap, "harness:queue-overflow", "TestExecutor queue overflow");
      if (_n < kCap) {
        _q[_n++] = &job;
      }
    }
  }
  // Runs queued jobs in FIFO order, including those queued meanwhile.  Returns how many ran.
  int Drain() {
    int ran = 0;
    while (_head < _n) {
      yaclib::Job* job = _q[_head++];
      Run(*job);
      ++ran;
    }
    return ran;
  }
  int Pending() const {
    return _n - _head;
  }
  // Drops everything still queued (an executor being destroyed with work inside).
  int DropAll() {
    int dropped = 0;
    while (_head < _n) {
      yaclib::Job* job = _q[_head++];
      ++drops;
      job->Drop();
      ++dropped;
    }
    return dropped;
  }
  void RejectFromNow() {
    _reject_from = submits;
  }

  int submits = 0;
  int calls = 0;
  int drops = 0;

 private:
  void Run(yaclib::Job& job) {
    ++calls;
    ExecScope scope{this};
    job.Call();
  }
  static constexpr int kCap = 32;
  Mode _mode;
  int _reject_from;
  yaclib::Job* _q[kCap];
  int _n = 0;
  int _head = 0;
};

// ---- a job that counts how it was finished -------------------------------------------------------
struct CountedJob final : yaclib::Job {
  int calls = 0;
  int drops = 0;
  std::function<void()> on_call;
  void Call() noexcept final {
    ++calls;
    if (on_call) {
      on_call();
    }
  }
  void Drop() noexcept final {
    ++drops;
  }
};

// ---- custom error type ----------------------------------------------------------------------------
struct MyError {
  int code;
  MyError(yaclib::StopTag) : code{-1} {
  }
  explicit MyError(int c) : code{c} {
  }
  static const char* What() noexcept {
    return "MyError";
  }
  friend bool operator==(const MyError& a, const MyError& b) {
    return a.code == b.code;
  }
};

struct Boom : std::runtime_error {
  explicit Boom(int n) : std::runtime_error{"boom"}, n{n} {
  }
  int n;
};

inline int ExceptionCode(const std::exception_ptr& e) {
  if (!e) {
    return -2;
  }
  try {
    std::rethrow_exception(e);
  } catch (const Boom& b) {
    return b.n;
  } catch (...) {
    return -3;
  }
}

// ---- observation of a Result ----------------------------------------------------------------------
// state: 'V' value, 'E' error, 'X' exception, '0' empty; code = payload id / error code / exception code
struct Seen {
  int count = 0;
  char state = '-';
  int code = 0;
  const void* exec = nullptr;
};

template <typename V, typename E>
inline void Observe(Seen& s, const yaclib::Result<V, E>& r) {
  ++s.count;
  s.exec = CurrentExecutorTag();
  switch (r.State()) {
    case yaclib::ResultState::Value:
      s.state = 'V';
      if constexpr (std::is_void_v<V>) {
        s.code = 0;
      } else {
        s.code = r.Value().Get();
      }
      break;
    case yaclib::ResultState::Error:
      s.state = 'E';
      if constexpr (std::is_same_v<E, MyError>) {
        s.code = r.Error().code;
      } else {
        s.code = -1;
      }
      break;
    case yaclib::ResultState::Exception:
      s.state = 'X';
      s.code = ExceptionCode(r.Exception());
      break;
    default:
      s.state = '0';
      s.code = 0;
      break;
  }
}

}  // namespace vxh
