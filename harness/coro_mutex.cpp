// Harness `coro_mutex` (C14): k coroutines, each started on its own fiber, do 1-2 lock/unlock rounds
// on a yaclib::Mutex<Batching, FIFO> through every locking and unlocking form; coroutines run inline,
// on instrumented inline executors, or on a real FairThreadPool(1|2).
#include "common.hpp"

#include <yaclib/async/contract.hpp>
#include <yaclib/coro/await.hpp>
#include <yaclib/coro/future.hpp>
#include <yaclib/coro/guard.hpp>
#include <yaclib/coro/guard_sticky.hpp>
#include <yaclib/coro/mutex.hpp>
#include <yaclib/coro/on.hpp>
#include <yaclib/runtime/fair_thread_pool.hpp>

#include <yaclib_std/thread>

namespace vxh {

const char* const kName = "coro_mutex";
const char* const kProperty = "C14";

namespace {

class Ex final : public yaclib::IExecutor {
 public:
  Type Tag() const noexcept final {
    return Type::Custom;
  }
  bool Alive() const noexcept final {
    return true;
  }
  void Submit(yaclib::Job& job) noexcept final {
    job.Call();
  }
};

struct World {
  vx::Shared inside{200};
  vx::Shared entered{201};
  int order[16];
  int norder = 0;   // plain: written inside critical sections only
  int data = 0;     // plain: written inside critical sections only (happens-before between sections)
  yaclib::IExecutor* exec[3] = {nullptr, nullptr, nullptr};
  yaclib::IExecutor* unlock_on = nullptr;
};

void Critical(World& w, int id) {
  const int now = w.inside.Add(1);
  VX_EXPECT(now == 1, "mutual-exclusion", "coroutine %d entered the critical section while %d other(s) are inside", id, now - 1);
  w.entered.Add(1);
  w.data = id;
  if (w.norder < 16) {
    w.order[w.norder++] = id;
  }
  vx::Point();
  VX_EXPECT(w.data == id, "mutual-exclusion", "data written in the critical section of coroutine %d was overwritten", id);
  w.inside.Add(-1);
}

template <typename M>
yaclib::Future<> Coro(M& m, World& w, int id, const std::string lock, const std::string unlock, int rounds) {
  if (w.exec[id] != nullptr) {
    co_await yaclib::On(*w.exec[id]);
  }
  for (int r = 0; r < rounds; ++r) {
    if (lock == "Lock" || lock == "TryLock") {
      bool fast = false;
      if (lock == "TryLock") {
        fast = m.TryLock();
        if (fast) {
          VX_EXPECT(w.inside.Get() == 0, "try-only-when-free", "TryLock succeeded while a coroutine is inside");
        }
      }
      if (!fast) {
        co_await m.Lock();
      }
      Critical(w, id);
      if (unlock == "Unlock") {
        co_await m.Unlock();
      } else if (unlock == "UnlockOn") {
        co_await m.UnlockOn(*w.unlock_on);
      } else {
        m.UnlockHere();
      }
    } else if (lock == "Guard" || lock == "TryGuard") {
      yaclib::UniqueGuard<M> g;
      if (lock == "TryGuard") {
        g = m.TryGuard();
        if (g) {
          VX_EXPECT(w.inside.Get() == 0, "try-only-when-free", "TryGuard succeeded while a coroutine is inside");
        }
      }
      if (!g) {
        g = co_await m.Guard();
      }
      VX_EXPECT(g.OwnsLock(), "guard-owns", "guard does not own the lock after acquisition");
      Critical(w, id);
      if (unlock == "Unlock") {
        co_await g.Unlock();
      } else if (unlock == "UnlockOn") {
        co_await g.UnlockOn(*w.unlock_on);
      } else if (unlock == "UnlockHere") {
        g.UnlockHere();
      }
      // "dtor": the guard releases at the end of the scope
    } else {  // GuardSticky
      auto g = co_await m.GuardSticky();
      Critical(w, id);
      if (unlock == "Unlock") {
        co_await g.Unlock();
      }
    }
  }
  co_return{};
}

template <typename M>
void RunConcurrent(const vx::Cell& cell) {
  const int k = cell.Int("k", 2);
  const int rounds = cell.Int("r", 1);
  const std::string& exe = cell.Str("exe");
  const std::string lock[3] = {cell.Str("l0"), cell.Str("l1"), cell.Str("l2")};
  const std::string unlock[3] = {cell.Str("u0"), cell.Str("u1"), cell.Str("u2")};
  World w;
  Ex ex[3];
  Ex unlock_ex;
  w.unlock_on = &unlock_ex;
  yaclib::IntrusivePtr<yaclib::FairThreadPool> pool;
  if (exe == "pool1" || exe == "pool2") {
    pool = yaclib::MakeFairThreadPool(exe == "pool2" ? 2 : 1);
    for (int i = 0; i < k; ++i) {
      w.exec[i] = pool.Get();
    }
    w.unlock_on = pool.Get();
  } else if (exe == "ex") {
    for (int i = 0; i < k; ++i) {
      w.exec[i] = &ex[i];
    }
  }
  {
    M m;
    std::vector<yaclib_std::thread> ts;
    ts.reserve(3);
    for (int i = 0; i < k; ++i) {
      ts.emplace_back([&, i] {
        auto f = Coro(m, w, i, lock[i], unlock[i], rounds);
        std::ignore = std::move(f).Get();
      });
    }
    for (auto& t : ts) {
      t.join();
    }
  }
  if (pool) {
    pool->Stop();
    pool->Wait();
  }
  VX_EXPECT(w.entered.Get() == k * rounds, "granted-exactly-once", "%d critical sections were entered, %d requests were made",
            w.entered.Get(), k * rounds);
  VX_EXPECT(w.inside.Get() == 0, "mutual-exclusion", "a coroutine is still marked inside at quiescence");
}

// Arrival order is fixed by construction: A holds the lock while B, then C enqueue; with FIFO=true
// the grants must follow A, B, C.
template <typename M, bool FIFO>
void RunChain(const vx::Cell& cell) {
  World w;
  const std::string& unlock = cell.Str("u0");
  Ex unlock_ex;
  w.unlock_on = &unlock_ex;
  {
    M m;
    auto [gate_f, gate_p] = yaclib::MakeContract<>();
    yaclib::Future<> gate = std::move(gate_f);
    // A: takes the lock, then waits inside the critical section until B and C have enqueued
    auto a = [&]() -> yaclib::Future<> {
      co_await m.Lock();
      const int now = w.inside.Add(1);
      VX_EXPECT(now == 1, "mutual-exclusion", "A is not alone inside");
      w.order[w.norder++] = 0;
      w.entered.Add(1);
      co_await yaclib::Await(gate);
      w.inside.Add(-1);
      if (unlock == "Unlock") {
        co_await m.Unlock();
      } else if (unlock == "UnlockOn") {
        co_await m.UnlockOn(*w.unlock_on);
      } else {
        m.UnlockHere();
      }
      co_return{};
    };
    yaclib::Future<> fa = a();
    yaclib_std::thread tb{[&] {
      auto fb = Coro(m, w, 1, "Lock", cell.Str("u1"), 1);  // suspends: enqueued behind A
      yaclib_std::thread tc{[&] {
        auto fc = Coro(m, w, 2, "Lock", cell.Str("u2"), 1);  // enqueued behind B
        std::move(gate_p).Set();                             // now A may leave
        std::ignore = std::move(fc).Get();
      }};
      std::ignore = std::move(fb).Get();
      tc.join();
    }};
    std::ignore = std::move(fa).Get();
    tb.join();
  }
  VX_EXPECT(w.entered.Get() == 3, "granted-exactly-once", "%d critical sections were entered, 3 requests were made",
            w.entered.Get());
  if (FIFO) {
    VX_EXPECT(w.norder == 3 && w.order[0] == 0 && w.order[1] == 1 && w.order[2] == 2, "fifo-grant-order",
              "FIFO mutex granted in order %d,%d,%d although the requests arrived in order 0,1,2", w.order[0], w.order[1],
              w.order[2]);
  }
  vx::Outcome("%d%d%d", w.order[0], w.order[1], w.order[2]);
}

template <bool Batching, bool FIFO>
void Dispatch(const vx::Cell& cell) {
  using M = yaclib::Mutex<Batching, FIFO>;
  if (cell.Is("mode", "chain")) {
    RunChain<M, FIFO>(cell);
  } else {
    RunConcurrent<M>(cell);
  }
}

}  // namespace

std::vector<std::string> Cells(int tier) {
  std::vector<std::string> cells;
  struct LU {
    const char* l;
    const char* u;
  };
  const LU forms[] = {{"Lock", "Unlock"},       {"Lock", "UnlockOn"},    {"Lock", "UnlockHere"},  {"TryLock", "Unlock"},
                      {"TryLock", "UnlockHere"}, {"Guard", "dtor"},       {"Guard", "Unlock"},     {"Guard", "UnlockOn"},
                      {"Guard", "UnlockHere"},   {"TryGuard", "dtor"},    {"GuardSticky", "dtor"}, {"GuardSticky", "Unlock"}};
  constexpr int kForms = sizeof(forms) / sizeof(forms[0]);
  for (const char* opt : {"BF", "Bf", "bF", "bf"}) {  // B batching, F fifo (capital = on)
    for (const char* exe : {"inline", "ex"}) {
      for (int a = 0; a < kForms; ++a) {
        for (int b = a; b < kForms; ++b) {
          // quick: the diagonal and every pair with the basic Lock/Unlock form
          if (tier == 0 && !(a == b || a == 0)) {
            continue;
          }
          for (const char* r : {"1", "2"}) {
            if (r[0] == '2' && (tier == 0 && a != b)) {
              continue;
            }
            cells.push_back(std::string{"opt="} + opt + ",mode=conc,exe=" + exe + ",k=2,r=" + r + ",l0=" + forms[a].l + ",u0=" +
                            forms[a].u + ",l1=" + forms[b].l + ",u1=" + forms[b].u);
          }
        }
      }
      // three coroutines
      for (const char* u : {"Unlock", "UnlockHere", "UnlockOn"}) {
        cells.push_back(std::string{"opt="} + opt + ",mode=conc,exe=" + exe + ",k=3,r=1,l0=Lock,u0=" + u + ",l1=Lock,u1=" + u +
                        ",l2=Guard,u2=dtor");
      }
    }
    for (const char* exe : {"pool1", "pool2"}) {
      for (const char* lu : {"l0=Lock,u0=Unlock,l1=Lock,u1=Unlock", "l0=Lock,u0=UnlockHere,l1=Guard,u1=dtor",
                             "l0=Lock,u0=UnlockOn,l1=GuardSticky,u1=Unlock", "l0=Guard,u0=Unlock,l1=TryLock,u1=Unlock"}) {
        cells.push_back(std::string{"opt="} + opt + ",mode=conc,exe=" + exe + ",k=2,r=1," + lu);
      }
    }
    for (const char* u0 : {"Unlock", "UnlockOn", "UnlockHere"}) {
      for (const char* u1 : {"Unlock", "UnlockHere"}) {
        cells.push_back(std::string{"opt="} + opt + ",mode=chain,exe=inline,k=3,r=1,u0=" + u0 + ",u1=" + u1 + ",u2=Unlock");
      }
    }
  }
  return cells;
}

bool CellBounds(const vx::Cell& cell, int tier, vx::Bounds& b) {
  const std::string& exe = cell.Str("exe");
  const int k = cell.Int("k");
  const int r = cell.Int("r");
  if (cell.Is("mode", "chain")) {
    b.P = tier == 0 ? 3 : 99;
  } else if (exe == "pool1" || exe == "pool2") {
    b.P = exe == "pool2" ? 1 : (tier == 0 ? 2 : 3);
  } else if (k == 3) {
    b.P = tier == 0 ? 2 : 3;
  } else {
    // calibrated: one round is ~8 k schedules with every interleaving; two rounds ~24 k at P=4, ~65 k at P=5, >1 M unbounded
    b.P = r == 2 ? (tier == 0 ? 4 : 6) : 99;
  }
  b.S = 1;
  b.T = 0;
  return true;
}

void Body(const vx::Cell& cell) {
  const std::string& opt = cell.Str("opt");
  if (opt == "BF") {
    Dispatch<true, true>(cell);
  } else if (opt == "Bf") {
    Dispatch<true, false>(cell);
  } else if (opt == "bF") {
    Dispatch<false, true>(cell);
  } else {
    Dispatch<false, false>(cell);
  }
}

}  // namespace vxh
