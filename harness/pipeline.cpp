// Sequential pipeline enumerator (C02, C05, C12, C20 and the drop/stop part of C03).
//
// A program is a runtime descriptor: source, up to 3 steps (attach mode x callback argument class x
// return class x sub-variant x throws x executor), finish/start method, and the index k from which
// executor E1 starts refusing work.  A recursive function template over the closed set of handle
// types {Future, FutureOn, Task} x {Tracked, void} (+ SharedFuture as a source) turns the descriptor
// into real library calls; a deliberately boring reference interpreter computes what must happen.
// Everything is single-threaded: executors are instrumented inline executors.
#include "common.hpp"

#include <yaclib/async/contract.hpp>
#include <yaclib/async/future.hpp>
#include <yaclib/async/make.hpp>
#include <yaclib/async/run.hpp>
#include <yaclib/async/shared_contract.hpp>
#include <yaclib/async/shared_future.hpp>
#include <yaclib/lazy/make.hpp>
#include <yaclib/lazy/schedule.hpp>
#include <yaclib/lazy/task.hpp>

#include <chrono>
#include <string>
#include <sys/mman.h>
#include <sys/wait.h>
#include <unistd.h>
#include <vector>

namespace vx {
bool SeqFailed();
const char* SeqOracle();
const char* SeqText();
void SeqReset();
extern std::uint64_t gAllocCount;
extern std::int64_t gAllocLive;
extern int gAllocPause;
}  // namespace vx

namespace {

using vxh::Boom;
using vxh::MyError;
using vxh::TestExecutor;
using T = vx::Tracked;
using E = MyError;

// ---------------------------------------------------------------------------------------------------
// Descriptors
// ---------------------------------------------------------------------------------------------------
enum Src : int {
  kReadyV, kReadyE, kReadyX, kSetBefore, kSetAfterV, kSetAfterE, kDropAfter, kRun, kRunThrow, kShared, kSharedLater,
  kSharedE, kSharedX,
  kNEager,
  kLMake = kNEager, kLMakeE, kLSchedule, kLContractNow, kLContractLater, kNSrc
};
const char* const kSrcName[] = {"MakeFuture(value)", "MakeFuture(error)", "MakeFuture(exception)", "contract set before",
                                "contract set(value) after", "contract set(error) after", "promise dropped after",
                                "Run(E0)", "Run(E0) throwing", "SharedFuture ready", "SharedFuture set after",
                                "SharedFuture ready error", "SharedFuture set(exception) after",
                                "MakeTask(value)", "MakeTask(error)", "Schedule(E0)", "LazyContract set inside",
                                "LazyContract set after start"};
enum Mode : int { kInline, kThenE, kThen0, kNMode };
const char* const kModeName[] = {"ThenInline", "Then(e)", "Then()"};
enum Arg : int { aR, aV, aE, aX, kNArg };
const char* const kArgName[] = {"Result", "value", "error", "exception_ptr"};
enum Ret : int { rVoid, rVal, rResT, rResVoid, rFutT, rFutVoid, rTaskT, rSharedT, rFutOnT, kNRet };
const char* const kRetName[] = {"void", "T", "Result<T>", "Result<void>", "Future<T>", "Future<void>", "Task<T>",
                                "SharedFuture<T>", "FutureOn<T> via Run(E1)"};
const int kNSub[] = {1, 1, 3, 3, 3, 3, 3, 2, 1};
const char* const kSubName[kNRet][3] = {{"", "", ""}, {"", "", ""}, {"value", "error", "exception"},
                                        {"value", "error", "exception"}, {"ready value", "ready error", "set later"},
                                        {"ready value", "ready error", "set later"},
                                        {"MakeTask", "Schedule(E1)", "LazyContract"}, {"ready", "set later", ""}, {"", "", ""}};
enum Fin : int {
  fGet, fDetachInline, fDetachE, fDrop, fDetach0, kNFin,
  sToFutureGet = kNFin, sToFutureEGet, sGet, sDetach, sDetachE, sDrop, kNFinAll
};
const char* const kFinName[] = {"Get", "DetachInline(cb)", "Detach(E0,cb)", "drop handle", "Detach(cb)",
                                "ToFuture().Get", "ToFuture(E1).Get", "Task::Get", "Task::Detach()", "Task::Detach(E1)",
                                "never started (dropped)"};

struct Step {
  int mode, arg, ret, sub, throws, exec;
};
struct Prog {
  int src = 0;
  int vt = 0;  // source value type: 0 = Tracked, 1 = void
  int n = 0;
  Step st[3];
  int fin = 0;
  int rej = -1;  // E1 refuses from its rej-th Submit on (-1 never)
};

std::string Describe(const Prog& p) {
  std::string s = std::string{kSrcName[p.src]} + (p.vt ? " <void>" : " <T>");
  for (int i = 0; i < p.n; ++i) {
    const Step& t = p.st[i];
    char b[200];
    std::snprintf(b, sizeof(b), " . %s%s[%s -> %s %s%s]", kModeName[t.mode], t.mode == kThenE ? (t.exec ? ":E1" : ":E0") : "",
                  kArgName[t.arg], kRetName[t.ret], kSubName[t.ret][t.sub], t.throws ? " THROWS" : "");
    s += b;
  }
  s += std::string{" . "} + kFinName[p.fin];
  if (p.rej >= 0) {
    s += " ; E1 refuses from submit #" + std::to_string(p.rej);
  }
  return s;
}

// ---------------------------------------------------------------------------------------------------
// What happened / what must happen
// ---------------------------------------------------------------------------------------------------
struct Inv {
  int step;  // step index; 50+i = inner function of step i; -1 = source function
  char st;
  int code;
  int exec;  // 0 none / uninstrumented, 1 E0, 2 E1
};
struct Trace {
  Inv inv[24];
  int ninv = 0;
  char fst = '-';
  int fcode = 0;
  int fcount = 0;
  int fexec = 0;
  int submits[2] = {0, 0};
  int drops[2] = {0, 0};
  int alloc_src = 0, alloc_step[3] = {0, 0, 0}, alloc_fin = 0;
  void Add(int step, char st, int code, int exec) {
    if (ninv < 24) {
      inv[ninv++] = {step, st, code, exec};
    }
  }
};

struct Ctx {
  const Prog* p = nullptr;
  Trace tr;
  TestExecutor e0{TestExecutor::kInline};
  TestExecutor* e1 = nullptr;
  // inner asyncs completed by the driver after building
  std::vector<std::pair<int, yaclib::Promise<T, E>>> later_t;
  std::vector<std::pair<int, yaclib::Promise<void, E>>> later_v;
  std::vector<std::pair<int, yaclib::SharedPromise<T, E>>> later_s;
  yaclib::Promise<T, E> src_pt;
  yaclib::Promise<void, E> src_pv;
  yaclib::SharedPromise<T, E> src_ps;
  yaclib::Promise<T, E> lazy_pt;
  yaclib::Promise<void, E> lazy_pv;
  int ExecTag() const {
    const void* t = vxh::CurrentExecutorTag();
    return t == &e0 ? 1 : (t == e1 ? 2 : 0);
  }
  TestExecutor& Ex(int i) {
    return i == 0 ? e0 : *e1;
  }
};

struct AllocPause {
  AllocPause() {
    ++vx::gAllocPause;
  }
  ~AllocPause() {
    --vx::gAllocPause;
  }
};

// ---------------------------------------------------------------------------------------------------
// Step functor: one template per (input value type, argument class, return class)
// ---------------------------------------------------------------------------------------------------
template <typename V>
using Res = yaclib::Result<V, E>;

template <int RK>
struct RetType;
template <>
struct RetType<rVoid> {
  using Type = void;
  using Value = void;
};
template <>
struct RetType<rVal> {
  using Type = T;
  using Value = T;
};
template <>
struct RetType<rResT> {
  using Type = Res<T>;
  using Value = T;
};
template <>
struct RetType<rResVoid> {
  using Type = Res<void>;
  using Value = void;
};
template <>
struct RetType<rFutT> {
  using Type = yaclib::Future<T, E>;
  using Value = T;
};
template <>
struct RetType<rFutVoid> {
  using Type = yaclib::Future<void, E>;
  using Value = void;
};
template <>
struct RetType<rTaskT> {
  using Type = yaclib::Task<T, E>;
  using Value = T;
};
template <>
struct RetType<rSharedT> {
  using Type = yaclib::SharedFuture<T, E>;
  using Value = T;
};
template <>
struct RetType<rFutOnT> {
  using Type = yaclib::FutureOn<T, E>;
  using Value = T;
};

template <int RK>
typename RetType<RK>::Type MakeRet(Ctx& c, int i, int sub) {
  using R = typename RetType<RK>::Type;
  if constexpr (RK == rVoid) {
    return;
  } else if constexpr (RK == rVal) {
    return T{100 + i};
  } else if constexpr (RK == rResT) {
    return sub == 0 ? R{T{100 + i}} : sub == 1 ? R{E{200 + i}} : R{std::make_exception_ptr(Boom{300 + i})};
  } else if constexpr (RK == rResVoid) {
    return sub == 0 ? R{yaclib::Unit{}} : sub == 1 ? R{E{200 + i}} : R{std::make_exception_ptr(Boom{300 + i})};
  } else if constexpr (RK == rFutT) {
    if (sub == 0) {
      return yaclib::MakeFuture<T, E>(T{100 + i});
    }
    if (sub == 1) {
      return yaclib::MakeFuture<T, E>(E{200 + i});
    }
    auto [f, p] = yaclib::MakeContract<T, E>();
    c.later_t.emplace_back(i, std::move(p));
    return std::move(f);
  } else if constexpr (RK == rFutVoid) {
    if (sub == 0) {
      return yaclib::MakeFuture<void, E>(yaclib::Unit{});
    }
    if (sub == 1) {
      return yaclib::MakeFuture<void, E>(E{200 + i});
    }
    auto [f, p] = yaclib::MakeContract<void, E>();
    c.later_v.emplace_back(i, std::move(p));
    return std::move(f);
  } else if constexpr (RK == rTaskT) {
    Ctx* pc = &c;
    if (sub == 0) {
      return yaclib::MakeTask<T, E>(T{500 + i});
    }
    if (sub == 1) {
      return yaclib::Schedule<E>(c.Ex(1), [pc, i] {
        AllocPause pause;
        pc->tr.Add(50 + i, 'V', 0, pc->ExecTag());
        return T{500 + i};
      });
    }
    return yaclib::LazyContract<T, E>([pc, i](yaclib::Promise<T, E> p) {
      AllocPause pause;
      pc->tr.Add(50 + i, 'V', 0, pc->ExecTag());
      std::move(p).Set(T{500 + i});
    });
  } else if constexpr (RK == rSharedT) {
    auto [f, p] = yaclib::MakeSharedContract<T, E>();
    if (sub == 0) {
      std::move(p).Set(T{100 + i});
    } else {
      c.later_s.emplace_back(i, std::move(p));
    }
    return std::move(f);
  } else {
    Ctx* pc = &c;
    return yaclib::Run<E>(c.Ex(1), [pc, i] {
      AllocPause pause;
      pc->tr.Add(50 + i, 'V', 0, pc->ExecTag());
      return T{600 + i};
    });
  }
}

template <typename VIn>
void RecordArg(Ctx& c, int i, const Res<VIn>& r) {
  vxh::Seen s;
  vxh::Observe(s, r);
  c.tr.Add(i, s.state, s.code, c.ExecTag());
}

template <typename VIn, int AC, int RK>
struct StepFn {
  Ctx* c;
  int i;
  int sub;
  int throws;
  vx::Tracked cap;  // a capture: the functor must be destroyed exactly once (ledger)
  using R = typename RetType<RK>::Type;

  R Body() {
    (void)cap.Get();
    if (throws != 0) {
      throw Boom{300 + i};
    }
    return MakeRet<RK>(*c, i, sub);
  }
  // argument class Result
  template <int A = AC, std::enable_if_t<A == aR, int> = 0>
  R operator()(Res<VIn> r) {
    AllocPause pause;
    RecordArg<VIn>(*c, i, r);
    return Body();
  }
  // argument class value (non-void)
  using ValueParam = std::conditional_t<std::is_void_v<VIn>, yaclib::Unit, VIn>;
  template <int A = AC, typename VV = VIn, std::enable_if_t<A == aV && !std::is_void_v<VV>, int> = 0>
  R operator()(ValueParam v) {
    AllocPause pause;
    c->tr.Add(i, 'V', v.Get(), c->ExecTag());
    return Body();
  }
  // argument class value for void: no parameter
  template <int A = AC, typename VV = VIn, std::enable_if_t<A == aV && std::is_void_v<VV>, int> = 0>
  R operator()() {
    AllocPause pause;
    c->tr.Add(i, 'V', 0, c->ExecTag());
    return Body();
  }
  template <int A = AC, std::enable_if_t<A == aE, int> = 0>
  R operator()(E e) {
    AllocPause pause;
    c->tr.Add(i, 'E', e.code, c->ExecTag());
    return Body();
  }
  template <int A = AC, std::enable_if_t<A == aX, int> = 0>
  R operator()(std::exception_ptr e) {
    AllocPause pause;
    c->tr.Add(i, 'X', vxh::ExceptionCode(e), c->ExecTag());
    return Body();
  }
};

// validity table (mirrors the library's static_asserts): recovery callbacks keep the value type
template <typename VIn, int AC, int RK>
constexpr bool ValidStep() {
  using VOut = typename RetType<RK>::Value;
  if (AC == aE || AC == aX) {
    return std::is_same_v<VIn, VOut>;
  }
  return true;
}
bool ValidStepRt(bool vin_void, int ac, int rk) {
  const bool vout_void = rk == rVoid || rk == rResVoid || rk == rFutVoid;
  if (ac == aE || ac == aX) {
    return vin_void == vout_void;
  }
  return true;
}

// ---------------------------------------------------------------------------------------------------
// Building: handle-type-closed recursion
// ---------------------------------------------------------------------------------------------------
template <typename H>
struct HInfo;
template <typename V>
struct HInfo<yaclib::Future<V, E>> {
  using Value = V;
  static constexpr bool kOn = false, kLazy = false, kShared = false;
};
template <typename V>
struct HInfo<yaclib::FutureOn<V, E>> {
  using Value = V;
  static constexpr bool kOn = true, kLazy = false, kShared = false;
};
template <typename V>
struct HInfo<yaclib::Task<V, E>> {
  using Value = V;
  static constexpr bool kOn = true, kLazy = true, kShared = false;
};
template <typename V>
struct HInfo<yaclib::SharedFuture<V, E>> {
  using Value = V;
  static constexpr bool kOn = false, kLazy = false, kShared = true;
};

template <typename H>
bool Next(H&& h, Ctx& c, int i);

template <typename H, int AC, int RK>
bool ApplyAR(H&& h, Ctx& c, int i) {
  using HD = std::decay_t<H>;
  using VIn = typename HInfo<HD>::Value;
  if constexpr (!ValidStep<VIn, AC, RK>()) {
    return false;
  } else {
    const Step& s = c.p->st[i];
    StepFn<VIn, AC, RK> fn{&c, i, s.sub, s.throws, vx::Tracked{900 + i}};
    const std::uint64_t a0 = vx::gAllocCount;
    auto done = [&](auto&& next) {
      c.tr.alloc_step[i] = static_cast<int>(vx::gAllocCount - a0);
      return Next(std::move(next), c, i + 1);
    };
    if constexpr (HInfo<HD>::kShared) {
      switch (s.mode) {
        case kInline:
          return done(h.ThenInline(std::move(fn)));
        case kThenE:
          return done(h.Then(c.Ex(s.exec), std::move(fn)));
        default:
          return false;
      }
    } else {
      switch (s.mode) {
        case kInline:
          return done(std::move(h).ThenInline(std::move(fn)));
        case kThenE:
          return done(std::move(h).Then(c.Ex(s.exec), std::move(fn)));
        default:
          if constexpr (HInfo<HD>::kOn) {
            return done(std::move(h).Then(std::move(fn)));
          } else {
            return false;
          }
      }
    }
  }
}

template <typename H, int AC>
bool ApplyA(H&& h, Ctx& c, int i) {
  switch (c.p->st[i].ret) {
    case rVoid: return ApplyAR<H, AC, rVoid>(std::forward<H>(h), c, i);
    case rVal: return ApplyAR<H, AC, rVal>(std::forward<H>(h), c, i);
    case rResT: return ApplyAR<H, AC, rResT>(std::forward<H>(h), c, i);
    case rResVoid: return ApplyAR<H, AC, rResVoid>(std::forward<H>(h), c, i);
    case rFutT: return ApplyAR<H, AC, rFutT>(std::forward<H>(h), c, i);
    case rFutVoid: return ApplyAR<H, AC, rFutVoid>(std::forward<H>(h), c, i);
    case rTaskT: return ApplyAR<H, AC, rTaskT>(std::forward<H>(h), c, i);
    case rSharedT: return ApplyAR<H, AC, rSharedT>(std::forward<H>(h), c, i);
    case rFutOnT: return ApplyAR<H, AC, rFutOnT>(std::forward<H>(h), c, i);
    default: return false;
  }
}

template <typename H>
bool Apply(H&& h, Ctx& c, int i) {
  switch (c.p->st[i].arg) {
    case aR: return ApplyA<H, aR>(std::forward<H>(h), c, i);
    case aV: return ApplyA<H, aV>(std::forward<H>(h), c, i);
    case aE: return ApplyA<H, aE>(std::forward<H>(h), c, i);
    case aX: return ApplyA<H, aX>(std::forward<H>(h), c, i);
    default: return false;
  }
}

// completes everything that was left pending ("set after building")
void Drive(Ctx& c) {
  AllocPause pause;
  const Prog& p = *c.p;
  if (c.src_pt.Valid()) {
    if (p.src == kSetAfterV) {
      std::move(c.src_pt).Set(T{1});
    } else if (p.src == kSetAfterE) {
      std::move(c.src_pt).Set(E{2});
    } else {
      c.src_pt = {};
    }
  }
  if (c.src_pv.Valid()) {
    if (p.src == kSetAfterV) {
      std::move(c.src_pv).Set();
    } else if (p.src == kSetAfterE) {
      std::move(c.src_pv).Set(E{2});
    } else {
      c.src_pv = {};
    }
  }
  if (c.src_ps.Valid()) {
    if (p.src == kSharedX) {
      std::move(c.src_ps).Set(std::make_exception_ptr(Boom{3}));
    } else {
      std::move(c.src_ps).Set(T{1});
    }
  }
  if (c.lazy_pt.Valid()) {
    std::move(c.lazy_pt).Set(T{1});
  }
  if (c.lazy_pv.Valid()) {
    std::move(c.lazy_pv).Set();
  }
  // inner asyncs in step order; completing one may create the next
  for (int round = 0; round < 8; ++round) {
    bool any = false;
    for (std::size_t k = 0; k < c.later_t.size(); ++k) {
      if (c.later_t[k].second.Valid()) {
        auto pr = std::move(c.later_t[k].second);
        const int i = c.later_t[k].first;
        std::move(pr).Set(T{400 + i});
        any = true;
      }
    }
    for (std::size_t k = 0; k < c.later_v.size(); ++k) {
      if (c.later_v[k].second.Valid()) {
        auto pr = std::move(c.later_v[k].second);
        std::move(pr).Set();
        any = true;
      }
    }
    for (std::size_t k = 0; k < c.later_s.size(); ++k) {
      if (c.later_s[k].second.Valid()) {
        auto pr = std::move(c.later_s[k].second);
        const int i = c.later_s[k].first;
        std::move(pr).Set(T{400 + i});
        any = true;
      }
    }
    if (!any) {
      break;
    }
  }
}

template <typename V>
void RecordFinal(Ctx& c, const Res<V>& r) {
  vxh::Seen s;
  vxh::Observe(s, r);
  c.tr.fst = s.state;
  c.tr.fcode = s.code;
  ++c.tr.fcount;
  c.tr.fexec = c.ExecTag();
}

template <typename H>
bool Finish(H&& h, Ctx& c) {
  using HD = std::decay_t<H>;
  using V = typename HInfo<HD>::Value;
  const Prog& p = *c.p;
  const std::uint64_t a0 = vx::gAllocCount;
  Ctx* pc = &c;
  auto cb = [pc](Res<V>&& r) {
    AllocPause pause;
    RecordFinal<V>(*pc, r);
  };
  if constexpr (HInfo<HD>::kShared) {
    return false;  // a shared source always has at least one step
  } else if constexpr (HInfo<HD>::kLazy) {
    // nothing may have run before the start
    const bool lazy_src_only = p.src >= kNEager;
    if (lazy_src_only) {
      VX_EXPECT(c.tr.ninv == 0 && c.tr.submits[0] + c.e0.submits + (c.e1 ? c.e1->submits : 0) == 0, "lazy:nothing-before-start",
                "%d callbacks ran and %d submissions happened before the Task was started", c.tr.ninv,
                c.e0.submits + (c.e1 ? c.e1->submits : 0));
    }
    switch (p.fin) {
      case sToFutureGet: {
        auto f = std::move(h).ToFuture();
        c.tr.alloc_fin = static_cast<int>(vx::gAllocCount - a0);
        Drive(c);
        auto r = std::move(f).Get();
        RecordFinal<V>(c, r);
        return true;
      }
      case sToFutureEGet: {
        auto f = std::move(h).ToFuture(c.Ex(1));
        c.tr.alloc_fin = static_cast<int>(vx::gAllocCount - a0);
        Drive(c);
        auto r = std::move(f).Get();
        RecordFinal<V>(c, r);
        return true;
      }
      case sGet: {
        if (p.src == kLContractLater) {
          return false;  // a blocking Get on a chain nobody else can complete would never return
        }
        for (int i = 0; i < p.n; ++i) {
          if ((p.st[i].ret == rFutT || p.st[i].ret == rFutVoid) && p.st[i].sub == 2) {
            return false;
          }
          if (p.st[i].ret == rSharedT && p.st[i].sub == 1) {
            return false;
          }
        }
        auto r = std::move(h).Get();
        c.tr.alloc_fin = static_cast<int>(vx::gAllocCount - a0);
        RecordFinal<V>(c, r);
        return true;
      }
      case sDetach:
        std::move(h).Detach();
        c.tr.alloc_fin = static_cast<int>(vx::gAllocCount - a0);
        Drive(c);
        return true;
      case sDetachE:
        std::move(h).Detach(c.Ex(1));
        c.tr.alloc_fin = static_cast<int>(vx::gAllocCount - a0);
        Drive(c);
        return true;
      case sDrop: {
        { auto dead = std::move(h); }
        c.tr.alloc_fin = static_cast<int>(vx::gAllocCount - a0);
        Drive(c);
        return true;
      }
      default:
        return false;
    }
  } else {
    switch (p.fin) {
      case fGet: {
        Drive(c);
        auto r = std::move(h).Get();
        c.tr.alloc_fin = static_cast<int>(vx::gAllocCount - a0);
        RecordFinal<V>(c, r);
        return true;
      }
      case fDetachInline:
        std::move(h).DetachInline(cb);
        c.tr.alloc_fin = static_cast<int>(vx::gAllocCount - a0);
        Drive(c);
        return true;
      case fDetachE:
        std::move(h).Detach(c.Ex(0), cb);
        c.tr.alloc_fin = static_cast<int>(vx::gAllocCount - a0);
        Drive(c);
        return true;
      case fDrop: {
        { auto dead = std::move(h); }
        c.tr.alloc_fin = static_cast<int>(vx::gAllocCount - a0);
        Drive(c);
        return true;
      }
      case fDetach0:
        if constexpr (HInfo<HD>::kOn) {
          std::move(h).Detach(cb);
          c.tr.alloc_fin = static_cast<int>(vx::gAllocCount - a0);
          Drive(c);
          return true;
        } else {
          return false;
        }
      default:
        return false;
    }
  }
}

template <typename H>
bool Next(H&& h, Ctx& c, int i) {
  if (i == c.p->n) {
    return Finish(std::forward<H>(h), c);
  }
  return Apply(std::forward<H>(h), c, i);
}

template <typename V>
bool BuildSrc(Ctx& c) {
  const Prog& p = *c.p;
  Ctx* pc = &c;
  const std::uint64_t a0 = vx::gAllocCount;
  auto go = [&](auto&& h) {
    c.tr.alloc_src = static_cast<int>(vx::gAllocCount - a0);
    return Next(std::move(h), c, 0);
  };
  (void)a0;
  auto value = [] {
    if constexpr (std::is_void_v<V>) {
      return yaclib::Unit{};
    } else {
      return T{1};
    }
  };
  switch (p.src) {
    case kReadyV:
      return go(yaclib::MakeFuture<V, E>(value()));
    case kReadyE:
      return go(yaclib::MakeFuture<V, E>(E{2}));
    case kReadyX: {
      std::exception_ptr ex;
      {
        AllocPause pause;
        ex = std::make_exception_ptr(Boom{3});
      }
      return go(yaclib::MakeFuture<V, E>(std::move(ex)));
    }
    case kSetBefore: {
      auto [f, pr] = yaclib::MakeContract<V, E>();
      {
        AllocPause pause;
        if constexpr (std::is_void_v<V>) {
          std::move(pr).Set();
        } else {
          std::move(pr).Set(T{1});
        }
      }
      return go(std::move(f));
    }
    case kSetAfterV:
    case kSetAfterE:
    case kDropAfter: {
      auto [f, pr] = yaclib::MakeContract<V, E>();
      if constexpr (std::is_void_v<V>) {
        c.src_pv = std::move(pr);
      } else {
        c.src_pt = std::move(pr);
      }
      return go(std::move(f));
    }
    case kRun:
    case kRunThrow: {
      const bool thr = p.src == kRunThrow;
      if constexpr (std::is_void_v<V>) {
        return go(yaclib::Run<E>(c.Ex(0), [pc, thr] {
          AllocPause pause;
          pc->tr.Add(-1, 'V', 0, pc->ExecTag());
          if (thr) {
            throw Boom{299};
          }
        }));
      } else {
        return go(yaclib::Run<E>(c.Ex(0), [pc, thr] {
          AllocPause pause;
          pc->tr.Add(-1, 'V', 0, pc->ExecTag());
          if (thr) {
            throw Boom{299};
          }
          return T{1};
        }));
      }
    }
    case kShared:
    case kSharedLater:
    case kSharedE:
    case kSharedX:
      if constexpr (std::is_void_v<V>) {
        return false;
      } else {
        if (p.n == 0) {
          return false;
        }
        auto [f, pr] = yaclib::MakeSharedContract<T, E>();
        if (p.src == kShared) {
          AllocPause pause;
          std::move(pr).Set(T{1});
        } else if (p.src == kSharedE) {
          AllocPause pause;
          std::move(pr).Set(E{2});
        } else {
          c.src_ps = std::move(pr);
        }
        return go(std::move(f));
      }
    case kLMake:
      if constexpr (std::is_void_v<V>) {
        return go(yaclib::MakeTask<yaclib::Unit, E>());
      } else {
        return go(yaclib::MakeTask<T, E>(T{1}));
      }
    case kLMakeE:
      return go(yaclib::MakeTask<V, E>(E{2}));
    case kLSchedule:
      if constexpr (std::is_void_v<V>) {
        return go(yaclib::Schedule<E>(c.Ex(0), [pc] {
          AllocPause pause;
          pc->tr.Add(-1, 'V', 0, pc->ExecTag());
        }));
      } else {
        return go(yaclib::Schedule<E>(c.Ex(0), [pc] {
          AllocPause pause;
          pc->tr.Add(-1, 'V', 0, pc->ExecTag());
          return T{1};
        }));
      }
    case kLContractNow:
      return go(yaclib::LazyContract<V, E>([pc](yaclib::Promise<V, E> pr) {
        AllocPause pause;
        pc->tr.Add(-1, 'V', 0, pc->ExecTag());
        if constexpr (std::is_void_v<V>) {
          std::move(pr).Set();
        } else {
          std::move(pr).Set(T{1});
        }
      }));
    case kLContractLater:
      return go(yaclib::LazyContract<V, E>([pc](yaclib::Promise<V, E> pr) {
        AllocPause pause;
        pc->tr.Add(-1, 'V', 0, pc->ExecTag());
        if constexpr (std::is_void_v<V>) {
          pc->lazy_pv = std::move(pr);
        } else {
          pc->lazy_pt = std::move(pr);
        }
      }));
    default:
      return false;
  }
}

// ---------------------------------------------------------------------------------------------------
// Reference interpreter (DESIGN.md appendix C)
// ---------------------------------------------------------------------------------------------------
struct RefExec {
  int submits[2] = {0, 0};
  int rej = -1;
  // returns true if accepted
  bool Submit(int ex) {  // ex: 1 = E0, 2 = E1
    const int k = submits[ex - 1]++;
    return !(ex == 2 && rej >= 0 && k >= rej);
  }
};

struct RefState {
  char st = 'V';
  int code = 0;
  bool is_void = false;
  int x = 0;  // inherited executor: 0 Inline (uninstrumented), 1 E0, 2 E1, 3 the always-stopped inline executor
  bool on = false;  // the handle is a FutureOn / Task: Then() and Detach(cb) without executor exist
};

bool Reference(const Prog& p, Trace& ex) {
  RefExec em;
  em.rej = p.rej;
  RefState r;
  r.is_void = p.vt != 0;
  const int v1 = r.is_void ? 0 : 1;
  const bool lazy = p.src >= kNEager;
  int head_exec = 0;
  bool head_is_fn = false;
  switch (p.src) {
    case kReadyV: case kSetBefore: case kSetAfterV: case kShared: case kSharedLater: case kLMake:
      r.st = 'V';
      r.code = v1;
      break;
    case kReadyE: case kSetAfterE: case kLMakeE: case kSharedE:
      r.st = 'E';
      r.code = 2;
      break;
    case kReadyX: case kSharedX:
      r.st = 'X';
      r.code = 3;
      break;
    case kDropAfter:
      r.st = 'E';
      r.code = -1;
      break;
    case kRun: case kRunThrow:
      em.Submit(1);
      ex.Add(-1, 'V', 0, 1);
      r.st = p.src == kRun ? 'V' : 'X';
      r.code = p.src == kRun ? v1 : 299;
      r.x = 1;
      r.on = true;
      break;
    case kLSchedule:
      head_exec = 1;
      head_is_fn = true;
      r.st = 'V';
      r.code = v1;
      break;
    case kLContractNow: case kLContractLater:
      head_exec = 0;
      head_is_fn = true;
      r.st = 'V';
      r.code = v1;
      break;
    default:
      break;
  }
  if ((p.src >= kShared && p.src <= kSharedX) && (p.vt != 0 || p.n == 0)) {
    return false;
  }
  if (lazy != (p.fin >= kNFin)) {
    return false;
  }
  if (lazy) {
    r.on = true;
    // start: the head is submitted to its executor (possibly replaced by the start method)
    int e = head_exec;
    if (p.fin == sToFutureEGet || p.fin == sDetachE) {
      e = 2;
    } else if (p.fin == sDrop) {
      e = 3;
    }
    bool accepted = true;
    if (e == 1 || e == 2) {
      accepted = em.Submit(e);
    } else if (e == 3) {
      accepted = false;
    }
    r.x = e;
    if (!accepted) {
      r.st = 'E';
      r.code = -1;
    } else if (head_is_fn) {
      ex.Add(-1, 'V', 0, e == 1 || e == 2 ? e : 0);
    }
  }
  for (int i = 0; i < p.n; ++i) {
    const Step& s = p.st[i];
    if (!ValidStepRt(r.is_void, s.arg, s.ret)) {
      return false;
    }
    int target = 0;  // 0 = no submission
    if (s.mode == kThenE) {
      target = s.exec + 1;
      r.x = target;
      r.on = true;
    } else if (s.mode == kThen0) {
      if (!r.on || (i == 0 && (p.src >= kShared && p.src <= kSharedX))) {
        return false;
      }
      target = r.x;
    }
    int ctx = -1;  // -1: not checked (inline continuation runs wherever its input completed)
    if (target == 1 || target == 2) {
      if (em.Submit(target)) {
        ctx = target;
      } else {
        r.st = 'E';
        r.code = -1;
        ctx = 0;
      }
    } else if (target == 3) {
      // inherited the always-stopped inline executor of a cancelled Task: dropped in the completing context
      r.st = 'E';
      r.code = -1;
    }
    // (an inherited plain Inline executor calls the job wherever its input completed: context not checked)
    const bool invoke = s.arg == aR || (s.arg == aV && r.st == 'V') || (s.arg == aE && r.st == 'E') || (s.arg == aX && r.st == 'X');
    const bool out_void = s.ret == rVoid || s.ret == rResVoid || s.ret == rFutVoid;
    if (!invoke) {
      r.is_void = out_void;
      continue;  // the failure (or the value, for a recovery callback) passes through unchanged
    }
    ex.Add(i, r.st, r.code, ctx);
    r.is_void = out_void;
    if (s.throws) {
      r.st = 'X';
      r.code = 300 + i;
      continue;
    }
    switch (s.ret) {
      case rVoid:
        r.st = 'V';
        r.code = 0;
        break;
      case rVal:
        r.st = 'V';
        r.code = 100 + i;
        break;
      case rResT: case rResVoid:
        r.st = s.sub == 0 ? 'V' : s.sub == 1 ? 'E' : 'X';
        r.code = s.sub == 0 ? (s.ret == rResT ? 100 + i : 0) : s.sub == 1 ? 200 + i : 300 + i;
        break;
      case rFutT: case rFutVoid:
        if (s.sub == 1) {
          r.st = 'E';
          r.code = 200 + i;
        } else {
          r.st = 'V';
          r.code = s.ret == rFutVoid ? 0 : (s.sub == 0 ? 100 + i : 400 + i);
        }
        break;
      case rTaskT:
        r.st = 'V';
        r.code = 500 + i;
        if (s.sub == 1) {
          // the inner Task is started by the step: its head goes to E1
          if (em.Submit(2)) {
            ex.Add(50 + i, 'V', 0, 2);
          } else {
            r.st = 'E';
            r.code = -1;
          }
        } else if (s.sub == 2) {
          ex.Add(50 + i, 'V', 0, -1);
        }
        break;
      case rSharedT:
        r.st = 'V';
        r.code = s.sub == 0 ? 100 + i : 400 + i;
        break;
      case rFutOnT:
        if (em.Submit(2)) {
          ex.Add(50 + i, 'V', 0, 2);
          r.st = 'V';
          r.code = 600 + i;
        } else {
          r.st = 'E';
          r.code = -1;
        }
        break;
      default:
        return false;
    }
  }
  if (p.fin == sGet) {
    // a blocking Task::Get on a chain that only the driver could complete would never return
    if (p.src == kLContractLater) {
      return false;
    }
    for (int i = 0; i < p.n; ++i) {
      if (((p.st[i].ret == rFutT || p.st[i].ret == rFutVoid) && p.st[i].sub == 2) || (p.st[i].ret == rSharedT && p.st[i].sub == 1)) {
        return false;
      }
    }
  }
  // finish
  bool observed = false;
  int fexec = -1;
  switch (p.fin) {
    case fGet: case sToFutureGet: case sToFutureEGet: case sGet:
      observed = true;
      fexec = 0;
      break;
    case fDetachInline:
      observed = true;
      break;
    case fDetachE:
      observed = true;
      em.Submit(1);
      fexec = 1;
      break;
    case fDetach0:
      if (!r.on) {
        return false;
      }
      observed = true;
      if (r.x == 1 || r.x == 2) {
        if (em.Submit(r.x)) {
          fexec = r.x;
        } else {
          r.st = 'E';
          r.code = -1;
          fexec = 0;
        }
      } else {
        fexec = 0;
      }
      break;
    default:
      break;
  }
  if (observed) {
    ex.fst = r.st;
    ex.fcode = r.code;
    ex.fcount = 1;
    ex.fexec = fexec;
  }
  ex.submits[0] = em.submits[0];
  ex.submits[1] = em.submits[1];
  return true;
}

// ---------------------------------------------------------------------------------------------------
// Running one program and comparing
// ---------------------------------------------------------------------------------------------------
// lives in shared memory: the supervisor process survives a crashing program
struct Stats {
  std::uint64_t programs, invalid, mismatches, steps, distinct_finals, twins, crashes;
  std::uint64_t ordinal;       // descriptor tuples enumerated so far
  std::uint64_t resume_after;  // skip everything up to and including this ordinal (0 = nothing)
  Prog in_flight;
  int in_flight_valid;
  int nfind, nkeys, nsamples;
  char findings[80][1400];
  char keys[80][200];
  char samples[5][700];
  bool finals_seen[3][1024];
  int done, capped;
};
Stats* gS = nullptr;
#define gStats (*gS)
int gCheckAlloc = 0;  // C20 mode
const char* gProp = "C02";

// machine-readable form of a program (replay files): src,vt,n,fin,rej;mode,arg,ret,sub,throws,exec;...
std::string Encode(const Prog& p) {
  char b[64];
  std::snprintf(b, sizeof(b), "%d,%d,%d,%d,%d", p.src, p.vt, p.n, p.fin, p.rej);
  std::string s = b;
  for (int i = 0; i < p.n; ++i) {
    const Step& t = p.st[i];
    std::snprintf(b, sizeof(b), ";%d,%d,%d,%d,%d,%d", t.mode, t.arg, t.ret, t.sub, t.throws, t.exec);
    s += b;
  }
  return s;
}
bool Decode(const std::string& code, Prog& p) {
  const char* c = code.c_str();
  int used = 0;
  if (std::sscanf(c, "%d,%d,%d,%d,%d%n", &p.src, &p.vt, &p.n, &p.fin, &p.rej, &used) != 5 || p.n < 0 || p.n > 3) {
    return false;
  }
  c += used;
  for (int i = 0; i < p.n; ++i) {
    Step& t = p.st[i];
    if (std::sscanf(c, ";%d,%d,%d,%d,%d,%d%n", &t.mode, &t.arg, &t.ret, &t.sub, &t.throws, &t.exec, &used) != 6) {
      return false;
    }
    c += used;
  }
  return true;
}

void AddFinding(const Prog& p, const char* oracle, const std::string& text) {
  ++gStats.mismatches;
  // one finding per (oracle, source kind lazy/eager, first step shape): a signature, not a schedule
  std::string key = std::string{oracle} + "|" + kSrcName[p.src];
  if (p.n > 0) {
    key += std::string{"|"} + kRetName[p.st[p.n - 1].ret] + "/" + kSubName[p.st[p.n - 1].ret][p.st[p.n - 1].sub];
  }
  key += std::string{"|"} + kFinName[p.fin];
  for (int k = 0; k < gStats.nkeys; ++k) {
    if (key == gStats.keys[k]) {
      return;
    }
  }
  if (gStats.nkeys >= 80) {
    return;
  }
  std::snprintf(gStats.keys[gStats.nkeys++], sizeof(gStats.keys[0]), "%s", key.c_str());
  auto esc = [](std::string s) {
    for (auto& ch : s) {
      if (ch == '"' || ch == '\\') {
        ch = '\'';
      }
    }
    return s;
  };
  const std::string js = "{\"oracle\":\"" + esc(oracle) + "\",\"program\":\"" + esc(Describe(p)) + "\",\"code\":\"" + Encode(p) +
                         "\",\"text\":\"" + esc(text).substr(0, 600) + "\"}";
  std::snprintf(gStats.findings[gStats.nfind++], sizeof(gStats.findings[0]), "%s", js.c_str());
}

std::string TraceText(const Trace& t) {
  std::string s;
  for (int i = 0; i < t.ninv; ++i) {
    char b[64];
    std::snprintf(b, sizeof(b), "%s#%d(%c%d)@%d", i ? " " : "", t.inv[i].step, t.inv[i].st, t.inv[i].code, t.inv[i].exec);
    s += b;
  }
  char b[96];
  std::snprintf(b, sizeof(b), " => %c%d x%d sub=[%d,%d]", t.fst, t.fcode, t.fcount, t.submits[0], t.submits[1]);
  return s + b;
}

// returns false if the program is not valid (not counted)
bool RunProgram(const Prog& p, Trace* out_actual = nullptr) {
  Trace want;
  if (!Reference(p, want)) {
    return false;
  }
  vx::SeqReset();
  vxh::ResetExecCtx();
  gStats.in_flight = p;
  gStats.in_flight_valid = 1;
  const std::int64_t live0 = vx::gAllocLive;
  bool valid = false;
  Trace got;
  {
    TestExecutor e1{TestExecutor::kInline, p.rej};
    Ctx c;
    c.p = &p;
    c.e1 = &e1;
    valid = p.vt == 0 ? BuildSrc<T>(c) : BuildSrc<void>(c);
    Drive(c);
    VX_EXPECT(valid, "harness:validity-table", "the reference accepted a program the builder rejected");
    c.tr.submits[0] = c.e0.submits;
    c.tr.submits[1] = e1.submits;
    c.tr.drops[0] = c.e0.drops;
    c.tr.drops[1] = e1.drops;
    got = c.tr;
    VX_EXPECT(c.e0.calls + c.e0.drops == c.e0.submits && e1.calls + e1.drops == e1.submits, "exec:call-xor-drop",
              "executor accounting: E0 %d/%d/%d E1 %d/%d/%d (submits/calls/drops)", c.e0.submits, c.e0.calls, c.e0.drops,
              e1.submits, e1.calls, e1.drops);
  }
  gStats.in_flight_valid = 0;
  if (!valid) {
    return false;
  }
  ++gStats.programs;
  gStats.steps += p.n;
  if (out_actual != nullptr) {
    *out_actual = got;
  }
  // ---- compare with the reference ----
  bool same = got.ninv == want.ninv && got.fcount == want.fcount && got.submits[0] == want.submits[0] &&
              got.submits[1] == want.submits[1];
  if (same && want.fcount != 0) {
    same = got.fst == want.fst && got.fcode == want.fcode && (want.fexec < 0 || want.fexec == got.fexec);
  }
  for (int i = 0; same && i < want.ninv; ++i) {
    same = got.inv[i].step == want.inv[i].step && got.inv[i].st == want.inv[i].st && got.inv[i].code == want.inv[i].code &&
           (want.inv[i].exec < 0 || want.inv[i].exec == got.inv[i].exec);
  }
  if (!same) {
    AddFinding(p, "pipeline:differs-from-reference", "got " + TraceText(got) + " ; reference " + TraceText(want));
  }
  if (vx::SeqFailed()) {
    AddFinding(p, vx::SeqOracle(), vx::SeqText());
  }
  if (vx::LedgerAlive() != 0) {
    AddFinding(p, "ledger:leak", std::to_string(vx::LedgerAlive()) + " tracked object(s) (values, functor captures) still alive after the pipeline finished");
  }
  if (vx::gAllocLive != live0) {
    AddFinding(p, "alloc:leak", std::to_string(vx::gAllocLive - live0) + " heap block(s) still live after the pipeline finished");
  }
  if (gCheckAlloc != 0) {
    const int src_max = (p.src == kSetBefore || p.src == kSetAfterV || p.src == kSetAfterE || p.src == kDropAfter || p.src == kShared ||
                         p.src == kSharedLater)
                          ? 1
                          : 1;
    if (got.alloc_src > src_max) {
      AddFinding(p, "alloc:source", "the source performed " + std::to_string(got.alloc_src) + " allocations (at most 1 allowed)");
    }
    for (int i = 0; i < p.n; ++i) {
      if (got.alloc_step[i] > 1) {
        AddFinding(p, "alloc:step", "attaching step " + std::to_string(i) + " performed " + std::to_string(got.alloc_step[i]) +
                                      " allocations (at most 1 allowed)");
      }
    }
    const int fin_max = (p.fin == fDetachInline || p.fin == fDetachE || p.fin == fDetach0) ? 1 : 0;
    if (got.alloc_fin > fin_max) {
      AddFinding(p, "alloc:finish", std::string{kFinName[p.fin]} + " performed " + std::to_string(got.alloc_fin) +
                                      " allocations (at most " + std::to_string(fin_max) + " allowed)");
    }
  }
  const int si = got.fst == 'V' ? 0 : got.fst == 'E' ? 1 : 2;
  const int ci = got.fcode < 0 ? 1023 : got.fcode % 1023;
  if (got.fcount != 0 && !gStats.finals_seen[si][ci]) {
    gStats.finals_seen[si][ci] = true;
    ++gStats.distinct_finals;
  }
  if (gStats.nsamples < 5 && p.n >= 2 && (gStats.programs % 9973) == 1) {
    std::snprintf(gStats.samples[gStats.nsamples++], sizeof(gStats.samples[0]), "%s", (Describe(p) + "  ==>  " + TraceText(got)).c_str());
  }
  return true;
}

// the eager twin of a lazy program (C12): same steps, eager source, finished by Get
bool EagerTwin(const Prog& lazy, Prog& twin) {
  twin = lazy;
  switch (lazy.src) {
    case kLMake: twin.src = kReadyV; break;
    case kLMakeE: twin.src = kReadyE; break;
    case kLSchedule: twin.src = kRun; break;
    case kLContractNow: twin.src = kSetBefore; break;
    case kLContractLater: twin.src = kSetAfterV; break;
    default: return false;
  }
  if (lazy.fin != sToFutureGet && lazy.fin != sGet) {
    return false;
  }
  twin.fin = fGet;
  return true;
}

// ---------------------------------------------------------------------------------------------------
// Enumeration
// ---------------------------------------------------------------------------------------------------
struct Alphabet {
  std::vector<Step> steps;
};

Alphabet FullAlphabet() {
  Alphabet a;
  for (int mode = 0; mode < kNMode; ++mode) {
    for (int arg = 0; arg < kNArg; ++arg) {
      for (int ret = 0; ret < kNRet; ++ret) {
        for (int sub = 0; sub < kNSub[ret]; ++sub) {
          for (int ex = 0; ex < (mode == kThenE ? 2 : 1); ++ex) {
            a.steps.push_back({mode, arg, ret, sub, 0, ex});
          }
        }
      }
      for (int ret = 0; ret < kNRet; ++ret) {
        a.steps.push_back({mode, arg, ret, 0, 1, 1});  // throwing instead of returning
      }
    }
  }
  return a;
}

Alphabet ReducedAlphabet() {
  Alphabet a;
  for (int mode = 0; mode < kNMode; ++mode) {
    for (int arg = 0; arg < kNArg; ++arg) {
      a.steps.push_back({mode, arg, rVal, 0, 0, 1});
      a.steps.push_back({mode, arg, rResT, 1, 0, 1});
      a.steps.push_back({mode, arg, rFutT, 2, 0, 1});
      a.steps.push_back({mode, arg, rTaskT, 0, 0, 1});
      a.steps.push_back({mode, arg, rVoid, 0, 0, 1});
    }
  }
  return a;
}

double NowS() {
  return std::chrono::duration<double>(std::chrono::steady_clock::now().time_since_epoch()).count();
}

struct Options {
  int tier = 0;
  std::string out;
  std::string mode = "eager";  // eager | lazy | alloc | exec
  int shard = 0, nshards = 1;
  double deadline = 0;
  std::string replay;
};

// lazy program against its eager twin (same descriptor list built with eager handles): a differential oracle
void CheckLazyTwin(const Prog& p, const Trace& actual) {
  Prog twin;
  if (!EagerTwin(p, twin)) {
    return;
  }
  Trace ta;
  const int before = gStats.nfind;
  if (!RunProgram(twin, &ta)) {
    return;
  }
  ++gStats.twins;
  // compare the steps (the source's own function, id -1, exists only where the source is a function)
  auto strip = [](const Trace& t, Inv* out) {
    int n = 0;
    for (int i = 0; i < t.ninv; ++i) {
      if (t.inv[i].step >= 0) {
        out[n++] = t.inv[i];
      }
    }
    return n;
  };
  Inv la[24], ea[24];
  const int ln = strip(actual, la), en = strip(ta, ea);
  bool same = ta.fst == actual.fst && ta.fcode == actual.fcode && ln == en;
  for (int i = 0; same && i < ln; ++i) {
    same = la[i].step == ea[i].step && la[i].st == ea[i].st && la[i].code == ea[i].code;
  }
  if (!same && gStats.nfind == before) {
    AddFinding(p, "lazy:differs-from-eager-twin", "lazy " + TraceText(actual) + " ; eager twin " + TraceText(ta));
  }
}

bool gCapped = false;

void Enumerate(const Options& o) {
  const Alphabet full = FullAlphabet();
  const Alphabet red = ReducedAlphabet();
  const bool lazy = o.mode == "lazy";
  const bool exec = o.mode == "exec";
  const double t_end = o.deadline > 0 ? NowS() + o.deadline : 0;
  std::uint64_t counter = 0;
  const int src_lo = lazy ? kNEager : 0;
  const int src_hi = lazy ? kNSrc : kNEager;
  const int fin_lo = lazy ? kNFin : 0;
  const int fin_hi = lazy ? kNFinAll : kNFin;
  const int maxlen = o.tier == 0 ? 2 : 3;
  for (int len = 0; len <= maxlen && !gCapped; ++len) {
    const Alphabet& al = len <= 2 ? full : red;
    const std::size_t n = al.steps.size();
    std::size_t idx[3] = {0, 0, 0};
    for (;;) {
      // shard by the first step (or by source for len 0)
      const bool mine = len == 0 ? (o.shard == 0) : (idx[0] % static_cast<std::size_t>(o.nshards) == static_cast<std::size_t>(o.shard));
      if (mine) {
        for (int src = src_lo; src < src_hi; ++src) {
          for (int vt = 0; vt < 2; ++vt) {
            for (int fin = fin_lo; fin < fin_hi; ++fin) {
              Prog p;
              p.src = src;
              p.vt = vt;
              p.n = len;
              for (int i = 0; i < len; ++i) {
                p.st[i] = al.steps[idx[i]];
              }
              p.fin = fin;
              // rejection index: without it, and (exec mode / thorough) every k up to the number of E1 submissions
              p.rej = -1;
              if (++gStats.ordinal <= gStats.resume_after) {
                continue;  // already done (or fatal) in a previous incarnation of this process
              }
              Trace actual;
              if (!RunProgram(p, &actual)) {
                ++gStats.invalid;
                continue;
              }
              if (lazy) {
                CheckLazyTwin(p, actual);
              }
              if (exec || o.tier > 0) {
                const int e1_submits = actual.submits[1];
                for (int k = 0; k < e1_submits; ++k) {
                  p.rej = k;
                  RunProgram(p);
                }
              }
            }
          }
        }
      }
      if ((++counter & 63) == 0 && t_end > 0 && NowS() > t_end) {
        gCapped = true;
        break;
      }
      int pos = len - 1;
      while (pos >= 0 && ++idx[pos] == n) {
        idx[pos--] = 0;
      }
      if (pos < 0) {
        break;
      }
    }
  }
}

// Runs the one program of a replay file (written by run.py from a finding) without any enumeration and prints
// what the library did, what the reference says, and every oracle that fails.  Exit 1 iff something fails.
int ReplayFile(const std::string& path) {
  FILE* f = std::fopen(path.c_str(), "r");
  if (f == nullptr) {
    std::fprintf(stderr, "cannot open %s\n", path.c_str());
    return 2;
  }
  std::string text;
  char buf[4096];
  std::size_t n;
  while ((n = std::fread(buf, 1, sizeof(buf), f)) > 0) {
    text.append(buf, n);
  }
  std::fclose(f);
  auto field = [&](const char* key) {
    const std::string k = std::string{"\""} + key + "\"";
    auto p = text.find(k);
    if (p == std::string::npos) {
      return std::string{};
    }
    p = text.find('"', text.find(':', p));
    const auto e = text.find('"', p + 1);
    return text.substr(p + 1, e - p - 1);
  };
  Prog p;
  if (!Decode(field("code"), p)) {
    std::fprintf(stderr, "no program code in %s\n", path.c_str());
    return 2;
  }
  const std::string cell = field("cell");
  static std::string prop = field("property");
  if (!prop.empty()) {
    gProp = prop.c_str();
  }
  gCheckAlloc = cell.find("mode=alloc") != std::string::npos ? 1 : 0;
  gS = static_cast<Stats*>(mmap(nullptr, sizeof(Stats), PROT_READ | PROT_WRITE, MAP_SHARED | MAP_ANONYMOUS, -1, 0));
  std::memset(static_cast<void*>(gS), 0, sizeof(Stats));
  std::printf("replay harness=pipeline cell=%s\nprogram: %s\n", cell.c_str(), Describe(p).c_str());
  Trace want;
  if (!Reference(p, want)) {
    std::printf("the reference rejects this program (not a valid pipeline)\n");
    return 2;
  }
  std::printf("reference: %s\n", TraceText(want).c_str());
  std::fflush(stdout);
  Trace got;
  const bool valid = RunProgram(p, &got);
  if (valid) {
    std::printf("library:   %s\n", TraceText(got).c_str());
    if (p.src >= kNEager) {
      CheckLazyTwin(p, got);
    }
  }
  for (int i = 0; i < gStats.nfind; ++i) {
    std::printf("FAILS %s\n", gStats.findings[i]);
  }
  std::printf(gStats.nfind != 0 || gStats.mismatches != 0 ? "RESULT violation\n" : "RESULT clean\n");
  return gStats.nfind != 0 || gStats.mismatches != 0 ? 1 : 0;
}

}  // namespace

int main(int argc, char** argv) {
  Options o;
  for (int i = 1; i < argc; ++i) {
    std::string a = argv[i];
    auto next = [&] {
      return std::string{i + 1 < argc ? argv[++i] : ""};
    };
    if (a == "--tier") {
      o.tier = next() == "thorough" ? 1 : 0;
    } else if (a == "--out") {
      o.out = next();
    } else if (a == "--mode") {
      o.mode = next();
    } else if (a == "--shard") {
      o.shard = std::atoi(next().c_str());
    } else if (a == "--nshards") {
      o.nshards = std::atoi(next().c_str());
    } else if (a == "--deadline") {
      o.deadline = std::atof(next().c_str());
    } else if (a == "--replay") {
      o.replay = next();
    } else if (a == "--prop") {
      static std::string prop;
      prop = next();
      gProp = prop.c_str();
    }
  }
  if (!o.replay.empty()) {
    return ReplayFile(o.replay);
  }
  gCheckAlloc = o.mode == "alloc" ? 1 : 0;
  gS = static_cast<Stats*>(mmap(nullptr, sizeof(Stats), PROT_READ | PROT_WRITE, MAP_SHARED | MAP_ANONYMOUS, -1, 0));
  std::memset(static_cast<void*>(gS), 0, sizeof(Stats));
  const double t_end = o.deadline > 0 ? NowS() + o.deadline : 0;
  for (;;) {
    gStats.ordinal = 0;
    const pid_t pid = fork();
    if (pid == 0) {
      if (t_end > 0) {
        o.deadline = std::max(1.0, t_end - NowS());
      }
      if (gCheckAlloc != 0) {
        Options o2 = o;
        o2.mode = "eager";
        Enumerate(o2);
        o2.mode = "lazy";
        Enumerate(o2);
      } else {
        Enumerate(o);
      }
      gStats.capped = gCapped ? 1 : 0;
      gStats.done = 1;
      _exit(0);
    }
    int status = 0;
    waitpid(pid, &status, 0);
    if (gStats.done != 0) {
      gCapped = gStats.capped != 0;
      break;
    }
    // the program in flight was fatal: record it and resume behind it
    ++gStats.crashes;
    char what[96];
    if (WIFSIGNALED(status)) {
      std::snprintf(what, sizeof(what), "crash:signal-%d", WTERMSIG(status));
    } else {
      std::snprintf(what, sizeof(what), "crash:exit-%d", WEXITSTATUS(status));
    }
    if (gStats.in_flight_valid != 0) {
      AddFinding(gStats.in_flight, what, "the program terminated the process (sanitizer report / signal / std::terminate)");
    } else {
      ++gStats.mismatches;
    }
    gStats.resume_after = gStats.ordinal;
    if (gStats.crashes > 400 || (t_end > 0 && NowS() > t_end)) {
      gCapped = true;
      break;
    }
  }
  std::string js = "{\"harness\":\"pipeline\",\"property\":\"";
  js += gProp;
  js += "\",\"cells\":[{\"cell\":\"mode=" + std::string{argc > 0 ? "" : ""} + o.mode + ",shard=" + std::to_string(o.shard) + "/" +
        std::to_string(o.nshards) + "\",";
  char b[400];
  std::snprintf(b, sizeof(b),
                "\"executions\":%llu,\"nodes\":%llu,\"transitions\":%llu,\"distinct_traces\":%llu,\"distinct_outcomes\":%llu,"
                "\"invalid_programs\":%llu,\"eager_twins\":%llu,\"crashes\":%llu,\"exhaustive\":%s,\"cap\":\"%s\",\"failing_executions\":%llu,",
                static_cast<unsigned long long>(gStats.programs), static_cast<unsigned long long>(gStats.programs),
                static_cast<unsigned long long>(gStats.steps + gStats.programs),
                static_cast<unsigned long long>(gStats.programs + 1), static_cast<unsigned long long>(gStats.distinct_finals),
                static_cast<unsigned long long>(gStats.invalid), static_cast<unsigned long long>(gStats.twins),
                static_cast<unsigned long long>(gStats.crashes), gCapped ? "false" : "true", gCapped ? "deadline" : "", static_cast<unsigned long long>(gStats.mismatches));
  js += b;
  js += "\"sample_programs\":[";
  for (int i = 0; i < gStats.nsamples; ++i) {
    std::string s = gStats.samples[i];
    for (auto& ch : s) {
      if (ch == '"' || ch == '\\') {
        ch = '\'';
      }
    }
    js += (i ? ",\"" : "\"") + s + "\"";
  }
  js += "],\"violations\":[";
  for (int i = 0; i < gStats.nfind; ++i) {
    js += (i ? "," : "") + std::string{gStats.findings[i]};
  }
  js += "]}]}\n";
  if (o.out.empty()) {
    std::fputs(js.c_str(), stdout);
  } else {
    FILE* f = std::fopen(o.out.c_str(), "w");
    std::fputs(js.c_str(), f);
    std::fclose(f);
  }
  return gStats.mismatches != 0 ? 1 : 0;
}
