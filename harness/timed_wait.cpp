// Harness `timed_wait` (C11): a waiter fiber calls Wait / WaitFor / WaitUntil over 1-2 futures
// (single-future fast path, variadic, iterator form; shared futures for the untimed form) while one
// producer fiber per future completes it; the deadline passes by explorer choice at any decision.
#include "common.hpp"

#include <yaclib/async/contract.hpp>
#include <yaclib/async/shared_contract.hpp>
#include <yaclib/async/wait.hpp>
#include <yaclib/async/wait_for.hpp>
#include <yaclib/async/wait_until.hpp>

#include <yaclib_std/chrono>
#include <yaclib_std/thread>

namespace vxh {

const char* const kName = "timed_wait";
const char* const kProperty = "C11";

namespace {

using V = vx::Tracked;
using E = yaclib::StopError;
using R = yaclib::Result<V, E>;
using F = yaclib::Future<V, E>;
constexpr std::uint64_t kHour = 3600ULL * 1000000000ULL;

struct WaitResult {
  bool timed = false;
  bool ret = true;
  std::uint64_t deadline = 0;
  const char* stack_hi = nullptr;  // everything below is the dead frame of the wait call
};

// The wait itself, in a frame of its own so that after it returned everything below `stack_hi`
// (the event object the completions signal lives there) is dead.
__attribute__((noinline)) WaitResult DoWait(const std::string& how, const std::string& form, std::vector<F>& fs) {
  WaitResult r;
  volatile char marker = 0;
  r.stack_hi = const_cast<const char*>(&marker);
  r.timed = how != "Wait";
  r.deadline = vx::VirtualNow() + kHour;
  if (how == "Wait") {
    if (form == "one") {
      yaclib::Wait(fs[0]);
    } else if (form == "two") {
      yaclib::Wait(fs[0], fs[1]);
    } else {
      yaclib::Wait(fs.begin(), fs.end());
    }
  } else if (how == "WaitFor") {
    if (form == "one") {
      r.ret = yaclib::WaitFor(std::chrono::hours{1}, fs[0]);
    } else if (form == "two") {
      r.ret = yaclib::WaitFor(std::chrono::hours{1}, fs[0], fs[1]);
    } else {
      r.ret = yaclib::WaitFor(std::chrono::hours{1}, fs.begin(), fs.end());
    }
  } else {
    const auto tp = yaclib_std::chrono::steady_clock::now() + std::chrono::hours{1};
    if (form == "one") {
      r.ret = yaclib::WaitUntil(tp, fs[0]);
    } else if (form == "two") {
      r.ret = yaclib::WaitUntil(tp, fs[0], fs[1]);
    } else {
      r.ret = yaclib::WaitUntil(tp, fs.begin(), fs.size());
    }
  }
  (void)marker;
  return r;
}

void CheckWait(const WaitResult& r, std::vector<F>& fs, const char* which) {
  bool all_ready = true;
  for (auto& f : fs) {
    all_ready = all_ready && f.Ready();
  }
  if (!r.timed) {
    VX_EXPECT(all_ready, "wait-implies-ready", "%s: Wait returned but not every future is Ready", which);
  } else if (r.ret) {
    VX_EXPECT(all_ready, "true-implies-ready", "%s: the timed wait returned true but not every future is Ready", which);
    vx::Outcome("%s=true;", which);
  } else {
    VX_EXPECT(vx::VirtualNow() >= r.deadline, "false-only-after-deadline",
              "%s: the timed wait returned false at virtual time %llu, before its deadline %llu", which,
              static_cast<unsigned long long>(vx::VirtualNow()), static_cast<unsigned long long>(r.deadline));
    vx::Outcome("%s=false;", which);
  }
}

void RunCell(const vx::Cell& cell) {
  const std::string& how = cell.Str("wait");
  const std::string& form = cell.Str("form");
  const std::string& pat = cell.Str("pat");
  const std::string& after = cell.Str("after");
  const std::string& cons = cell.Str("cons");
  const bool twice = cell.Is("twice", "1");
  const int n = form == "one" ? 1 : 2;
  Seen seen[2];
  {
    std::vector<F> fs;
    std::vector<yaclib_std::thread> ts;
    fs.reserve(2);
    ts.reserve(2);
    for (int i = 0; i < n; ++i) {
      auto [f, p] = yaclib::MakeContract<V, E>();
      fs.push_back(std::move(f));
      ts.emplace_back([&pat, i, p = std::move(p)]() mutable {
        if (pat[i] == 'V') {
          std::move(p).Set(V{10 + i});
        } else {
          std::move(p).Set(yaclib::StopTag{});
        }
      });
    }
    WaitResult r = DoWait(how, form, fs);
    CheckWait(r, fs, "wait1");
    if (twice) {
      r = DoWait(how, form, fs);
      CheckWait(r, fs, "wait2");
    }
    if (after == "join") {
      // nothing may touch the dead frame of the wait from now on, however late a completion arrives
      vx::DeadRegion(r.stack_hi - 16 * 1024, 16 * 1024, "no-touch-after-return");
      for (auto& t : ts) {
        t.join();
      }
      ts.clear();
      vx::ClearDeadRegions();
    }
    // afterwards every future still delivers its result exactly once to a later consumer
    for (int i = 0; i < n; ++i) {
      if (cons == "Get") {
        R res = std::move(fs[i]).Get();
        Observe(seen[i], res);
      } else if (cons == "ThenInline") {
        std::move(fs[i]).DetachInline([&seen, i](R&& res) {
          Observe(seen[i], res);
        });
      } else {
        yaclib::Wait(fs[i]);
        R res = std::move(fs[i]).Touch();
        Observe(seen[i], res);
      }
    }
    for (auto& t : ts) {
      t.join();
    }
  }
  for (int i = 0; i < n; ++i) {
    VX_EXPECT(seen[i].count == 1, "delivered-once-afterwards", "future %d delivered its result %d time(s) after the wait", i,
              seen[i].count);
    if (seen[i].count == 1) {
      const char state = pat[i] == 'V' ? 'V' : 'E';
      const int code = pat[i] == 'V' ? 10 + i : -1;
      VX_EXPECT(seen[i].state == state && seen[i].code == code, "delivered-intact-afterwards",
                "future %d delivered (%c,%d), expected (%c,%d)", i, seen[i].state, seen[i].code, state, code);
    }
  }
}

void RunShared(const vx::Cell& cell) {
  // untimed Wait over two shared futures (timed waits do not accept shared futures)
  const std::string& form = cell.Str("form");
  using SF = yaclib::SharedFuture<V, E>;
  std::vector<SF> fs;
  std::vector<yaclib_std::thread> ts;
  fs.reserve(2);
  ts.reserve(2);
  for (int i = 0; i < 2; ++i) {
    auto [f, p] = yaclib::MakeSharedContract<V, E>();
    fs.push_back(std::move(f));
    ts.emplace_back([i, p = std::move(p)]() mutable {
      std::move(p).Set(V{10 + i});
    });
  }
  if (form == "shared-two") {
    yaclib::Wait(fs[0], fs[1]);
  } else {
    yaclib::Wait(fs.begin(), fs.end());
  }
  for (int i = 0; i < 2; ++i) {
    VX_EXPECT(fs[i].Ready(), "wait-implies-ready", "Wait over shared futures returned but future %d is not Ready", i);
    Seen s;
    Observe(s, std::as_const(fs[i]).Get());
    VX_EXPECT(s.state == 'V' && s.code == 10 + i, "delivered-intact-afterwards", "shared future %d reads (%c,%d)", i, s.state,
              s.code);
  }
  for (auto& t : ts) {
    t.join();
  }
}

}  // namespace

std::vector<std::string> Cells(int tier) {
  std::vector<std::string> cells;
  for (const char* wait : {"Wait", "WaitFor", "WaitUntil"}) {
    for (const char* form : {"one", "two", "iter"}) {
      for (const char* after : {"join", "now"}) {
        for (const char* cons : {"Get", "ThenInline", "WaitTouch"}) {
          for (const char* twice : {"0", "1"}) {
            const bool timed = std::string{wait} != "Wait";
            if (twice[0] == '1' && (!timed || std::string{cons} != "Get")) {
              continue;
            }
            if (tier == 0 && std::string{wait} == "WaitUntil" && std::string{cons} != "Get") {
              continue;
            }
            const char* pats1[] = {"V", "E"};
            const char* pats2[] = {"VV", "VE"};
            for (int pi = 0; pi < 2; ++pi) {
              const char* pat = std::string{form} == "one" ? pats1[pi] : pats2[pi];
              if (tier == 0 && pi == 1 && std::string{cons} != "Get") {
                continue;
              }
              cells.push_back(std::string{"wait="} + wait + ",form=" + form + ",after=" + after + ",cons=" + cons +
                              ",twice=" + twice + ",pat=" + pat);
            }
          }
        }
      }
    }
  }
  cells.push_back("wait=Wait,form=shared-two,after=now,cons=Get,twice=0,pat=VV");
  cells.push_back("wait=Wait,form=shared-iter,after=now,cons=Get,twice=0,pat=VV");
  return cells;
}

bool CellBounds(const vx::Cell& cell, int tier, vx::Bounds& b) {
  const bool timed = !cell.Is("wait", "Wait");
  const bool one = cell.Is("form", "one");
  b.P = 99;  // calibrated: every interleaving of the largest cell is ~50 k schedules
  b.S = 1;
  b.T = timed ? (cell.Is("twice", "1") ? 2 : 1) : 0;
  return true;
}

void Body(const vx::Cell& cell) {
  if (cell.Str("form").find("shared") != std::string::npos) {
    RunShared(cell);
  } else {
    RunCell(cell);
  }
}

}  // namespace vxh
