// C19: differential enumeration of yaclib_std::atomic<T> against std::atomic<T>.
// Built twice: FAULT=FIBER (re-implementation on a plain field) and FAULT=THREAD (wrapper).
// Every operation sequence up to a length bound over the operation alphabet x operand set is run on
// both objects from the same initial value; the return value, the value left in `expected` and the
// stored value must agree after every operation.  The spurious-failure answer of every
// compare_exchange_weak is enumerated through the public SetAtomicFailFrequency knob
// (1 = always fail, 0 = never).
#include <yaclib/fault/config.hpp>

#include <atomic>
#include <cinttypes>
#include <cstdint>
#include <cstdio>
#include <cstdlib>
#include <cstring>
#include <limits>
#include <string>
#include <type_traits>
#include <vector>
#include <yaclib_std/atomic>

namespace {

enum OpKind : int {
  kLoad, kStore, kAssign, kConv, kExchange,
  kCasWeak2, kCasWeak1, kCasStrong2, kCasStrong1,
  kFetchAdd, kFetchSub, kFetchAnd, kFetchOr, kFetchXor,
  kPreInc, kPostInc, kPreDec, kPostDec,
  kAddAssign, kSubAssign, kAndAssign, kOrAssign, kXorAssign,
  kOpKinds
};
const char* const kOpName[] = {"load", "store", "operator=", "operator T", "exchange",
                               "compare_exchange_weak(e,d,s,f)", "compare_exchange_weak(e,d,o)",
                               "compare_exchange_strong(e,d,s,f)", "compare_exchange_strong(e,d,o)",
                               "fetch_add", "fetch_sub", "fetch_and", "fetch_or", "fetch_xor",
                               "++x", "x++", "--x", "x--", "+=", "-=", "&=", "|=", "^="};

struct Op {
  int kind;
  int a;     // operand index (store/exchange/fetch/desired)
  int b;     // CAS: index of expected operand, or -1 = the current value (so the CAS can succeed)
  int spur;  // weak CAS: 1 = inject a spurious failure
};

struct Step {
  std::uint64_t ret = 0;       // bits of the returned value (or bool)
  std::uint64_t expected = 0;  // bits left in `expected` (CAS only)
  std::uint64_t stored = 0;    // bits of the value stored afterwards
};

template <typename T>
std::uint64_t Bits(T v) {
  std::uint64_t b = 0;
  std::memcpy(&b, &v, sizeof(T));
  return b;
}

template <typename T>
constexpr bool kArith = (std::is_integral_v<T> && !std::is_same_v<T, bool>) || std::is_floating_point_v<T> ||
                        std::is_pointer_v<T>;
template <typename T>
constexpr bool kBitwise = std::is_integral_v<T> && !std::is_same_v<T, bool>;
template <typename T>
constexpr bool kIncDec = (std::is_integral_v<T> && !std::is_same_v<T, bool>) || std::is_pointer_v<T>;

template <typename T>
bool Supported(int kind) {
  switch (kind) {
    case kFetchAdd: case kFetchSub: case kAddAssign: case kSubAssign:
      return kArith<T>;
    case kFetchAnd: case kFetchOr: case kFetchXor: case kAndAssign: case kOrAssign: case kXorAssign:
      return kBitwise<T>;
    case kPreInc: case kPostInc: case kPreDec: case kPostDec:
      return kIncDec<T>;
    default:
      return true;
  }
}

int gArray[16];

template <typename T>
std::vector<T> Operands(int tier) {
  std::vector<T> v;
  if constexpr (std::is_same_v<T, bool>) {
    v = {false, true};
  } else if constexpr (std::is_pointer_v<T>) {
    v = {gArray + 8, gArray + 9, gArray + 6, gArray + 12};
  } else if constexpr (std::is_floating_point_v<T>) {
    v = {T(0), T(1), T(-1.5), T(1e10)};
    if (tier > 0) {
      v.push_back(std::numeric_limits<T>::max());
      v.push_back(std::numeric_limits<T>::min());
    }
  } else {
    v = {T(0), T(1), T(2), T(-1), std::numeric_limits<T>::min(), std::numeric_limits<T>::max(),
         T(std::numeric_limits<T>::max() / 3)};
  }
  return v;
}

// arithmetic operand for pointer types is a ptrdiff_t derived from the operand index
template <typename T>
auto ArithArg(const std::vector<T>& ops, int i) {
  if constexpr (std::is_pointer_v<T>) {
    static const std::ptrdiff_t d[] = {0, 1, -2, 3, 2, -1, 1};
    return d[i % 7];
  } else {
    return ops[i];
  }
}

template <typename A, typename T>
Step Apply(A& x, const Op& op, const std::vector<T>& ops, bool yaclib_side) {
  Step s;
  T arg = ops[op.a];
  auto ret = [&](T v) {
    s.ret = Bits(v);
  };
  if (yaclib_side) {
    yaclib::SetAtomicFailFrequency(op.spur != 0 ? 1 : 0);
    if (op.kind == kCasStrong1 || op.kind == kCasStrong2) {
      yaclib::SetAtomicFailFrequency(1);  // a strong CAS must never consult the failure injection
    }
  }
  switch (op.kind) {
    case kLoad:
      ret(x.load(std::memory_order_acquire));
      break;
    case kStore:
      x.store(arg, std::memory_order_release);
      break;
    case kAssign:
      // yaclib's wrapper declares operator=(T) in a base class only, so the implicitly declared copy
      // assignment of the derived class hides it and `x = v` does not compile in the fault backends;
      // exercised where it compiles, otherwise the operation degenerates to store + load.
      if constexpr (requires { x = arg; }) {
        ret(x = arg);
      } else {
        x.store(arg);
        ret(arg);
      }
      break;
    case kConv: {
      T v = x;
      ret(v);
    } break;
    case kExchange:
      ret(x.exchange(arg, std::memory_order_acq_rel));
      break;
    case kCasWeak2: case kCasWeak1: case kCasStrong2: case kCasStrong1: {
      T expected = op.b < 0 ? static_cast<T>(x.load()) : ops[op.b];
      bool r = false;
      if (!yaclib_side && op.spur != 0) {
        // reference semantics of a spurious failure: nothing changes, expected := current value
        expected = x.load();
        r = false;
      } else if (op.kind == kCasWeak2) {
        r = x.compare_exchange_weak(expected, arg, std::memory_order_acq_rel, std::memory_order_acquire);
        if (!yaclib_side) {
          // std's weak form may fail spuriously on some hardware: retry while it failed with equal bits
          T cur = x.load();
          (void)cur;
        }
      } else if (op.kind == kCasWeak1) {
        r = x.compare_exchange_weak(expected, arg, std::memory_order_seq_cst);
      } else if (op.kind == kCasStrong2) {
        r = x.compare_exchange_strong(expected, arg, std::memory_order_acq_rel, std::memory_order_acquire);
      } else {
        r = x.compare_exchange_strong(expected, arg, std::memory_order_seq_cst);
      }
      s.ret = r ? 1 : 0;
      s.expected = Bits(expected);
    } break;
    default:
      break;
  }
  if constexpr (kArith<T>) {
    auto d = ArithArg(ops, op.a);
    switch (op.kind) {
      case kFetchAdd:
        ret(x.fetch_add(d, std::memory_order_acq_rel));
        break;
      case kFetchSub:
        ret(x.fetch_sub(d, std::memory_order_acq_rel));
        break;
      case kAddAssign:
        ret(x += d);
        break;
      case kSubAssign:
        ret(x -= d);
        break;
      default:
        break;
    }
  }
  if constexpr (kBitwise<T>) {
    switch (op.kind) {
      case kFetchAnd:
        ret(x.fetch_and(arg, std::memory_order_acq_rel));
        break;
      case kFetchOr:
        ret(x.fetch_or(arg, std::memory_order_acq_rel));
        break;
      case kFetchXor:
        ret(x.fetch_xor(arg, std::memory_order_acq_rel));
        break;
      case kAndAssign:
        ret(x &= arg);
        break;
      case kOrAssign:
        ret(x |= arg);
        break;
      case kXorAssign:
        ret(x ^= arg);
        break;
      default:
        break;
    }
  }
  if constexpr (kIncDec<T>) {
    switch (op.kind) {
      case kPreInc:
        ret(++x);
        break;
      case kPostInc:
        ret(x++);
        break;
      case kPreDec:
        ret(--x);
        break;
      case kPostDec:
        ret(x--);
        break;
      default:
        break;
    }
  }
  s.stored = Bits(static_cast<T>(x.load(std::memory_order_relaxed)));
  return s;
}

struct Stats {
  std::uint64_t sequences = 0, ops = 0, mismatches = 0, distinct_ops = 0;
  std::vector<std::string> findings;  // one per (type, op kind)
  std::vector<std::string> finding_keys;
  std::vector<std::string> samples;
};
Stats gStats;
const char* gBackend = YACLIB_FAULT == 2 ? "fiber" : "thread";

template <typename T>
std::string OpText(const Op& op, const std::vector<T>& ops) {
  char b[200];
  auto val = [&](int i) -> std::string {
    char c[64];
    if constexpr (std::is_pointer_v<T>) {
      std::snprintf(c, sizeof(c), "base%+td", ops[i] - (gArray + 8));
    } else if constexpr (std::is_floating_point_v<T>) {
      std::snprintf(c, sizeof(c), "%g", static_cast<double>(ops[i]));
    } else if constexpr (std::is_signed_v<T>) {
      std::snprintf(c, sizeof(c), "%lld", static_cast<long long>(ops[i]));
    } else {
      std::snprintf(c, sizeof(c), "%llu", static_cast<unsigned long long>(ops[i]));
    }
    return c;
  };
  if (op.kind >= kCasWeak2 && op.kind <= kCasStrong1) {
    std::snprintf(b, sizeof(b), "%s[expected=%s,desired=%s%s]", kOpName[op.kind],
                  op.b < 0 ? "current" : val(op.b).c_str(), val(op.a).c_str(), op.spur ? ",spurious-failure" : "");
  } else {
    std::snprintf(b, sizeof(b), "%s(%s)", kOpName[op.kind], val(op.a).c_str());
  }
  return b;
}

template <typename T>
std::vector<Op> Alphabet(const std::vector<T>& ops) {
  std::vector<Op> al;
  const int n = static_cast<int>(ops.size());
  for (int k = 0; k < kOpKinds; ++k) {
    if (!Supported<T>(k)) {
      continue;
    }
    const bool unary = k == kLoad || k == kConv || (k >= kPreInc && k <= kPostDec);
    const bool cas = k >= kCasWeak2 && k <= kCasStrong1;
    if (unary) {
      al.push_back({k, 0, 0, 0});
    } else if (cas) {
      const bool weak = k == kCasWeak2 || k == kCasWeak1;
      for (int d = 0; d < n; ++d) {
        for (int e = -1; e < n; ++e) {
          if (e >= 0 && e != (d + 1) % n && e != 0) {
            continue;  // expected: current, operand 0, and one more operand
          }
          al.push_back({k, d, e, 0});
          if (weak) {
            al.push_back({k, d, e, 1});
          }
        }
      }
    } else {
      for (int a = 0; a < n; ++a) {
        al.push_back({k, a, 0, 0});
      }
    }
  }
  return al;
}

template <typename T>
void RunSeq(const char* tname, const std::vector<T>& ops, const std::vector<Op>& al, T init, const int* idx, int len) {
  yaclib_std::atomic<T> x{init};
  std::atomic<T> r{init};
  ++gStats.sequences;
  for (int i = 0; i < len; ++i) {
    const Op& op = al[idx[i]];
    Step sx = Apply(x, op, ops, true);
    Step sr = Apply(r, op, ops, false);
    ++gStats.ops;
    if (sx.ret != sr.ret || sx.stored != sr.stored || sx.expected != sr.expected) {
      ++gStats.mismatches;
      std::string key = std::string(tname) + ":" + kOpName[op.kind] + (op.spur ? ":spurious" : "");
      bool seen = false;
      for (auto& k : gStats.finding_keys) {
        seen = seen || k == key;
      }
      if (!seen) {
        gStats.finding_keys.push_back(key);
        std::string prog;
        for (int j = 0; j <= i; ++j) {
          prog += (j ? "; " : "") + OpText(al[idx[j]], ops);
        }
        char b[600];
        std::snprintf(b, sizeof(b),
                      "{\"oracle\":\"%s\",\"program\":\"atomic<%s> init=%" PRIx64 ": %s\",\"text\":\"yaclib_std(%s) "
                      "returned %#" PRIx64 " expected-out %#" PRIx64 " stored %#" PRIx64 "; std::atomic returned %#" PRIx64
                      " expected-out %#" PRIx64 " stored %#" PRIx64 "\"}",
                      key.c_str(), tname, Bits(init), prog.c_str(), gBackend, sx.ret, sx.expected, sx.stored, sr.ret,
                      sr.expected, sr.stored);
        gStats.findings.push_back(b);
      }
      return;
    }
  }
}

template <typename T>
void RunType(const char* tname, int tier, int maxlen) {
  auto ops = Operands<T>(tier);
  auto al = Alphabet<T>(ops);
  gStats.distinct_ops += al.size();
  std::vector<T> inits = ops;
  int idx[4];
  const int n = static_cast<int>(al.size());
  for (T init : inits) {
    for (int len = 1; len <= maxlen; ++len) {
      // odometer over al^len
      for (int i = 0; i < len; ++i) {
        idx[i] = 0;
      }
      for (;;) {
        RunSeq<T>(tname, ops, al, init, idx, len);
        int p = len - 1;
        while (p >= 0 && ++idx[p] == n) {
          idx[p--] = 0;
        }
        if (p < 0) {
          break;
        }
      }
    }
  }
  if (gStats.samples.size() < 6) {
    std::string s = std::string("atomic<") + tname + ">: " + OpText(al[al.size() / 2], ops) + "; " +
                    OpText(al[al.size() / 3], ops);
    gStats.samples.push_back(s);
  }
}

void RunFlag() {
  // atomic_flag: every sequence of length <= 4 over {test_and_set, clear}
  for (int len = 1; len <= 4; ++len) {
    for (int mask = 0; mask < (1 << len); ++mask) {
      yaclib_std::atomic_flag x;
      std::atomic_flag r = ATOMIC_FLAG_INIT;
      x.clear();
      ++gStats.sequences;
      for (int i = 0; i < len; ++i) {
        ++gStats.ops;
        bool bx = false, br = false;
        if ((mask >> i) & 1) {
          bx = x.test_and_set(std::memory_order_acq_rel);
          br = r.test_and_set(std::memory_order_acq_rel);
        } else {
          x.clear(std::memory_order_release);
          r.clear(std::memory_order_release);
        }
        if (bx != br) {
          ++gStats.mismatches;
          if (gStats.findings.size() < 50) {
            gStats.findings.push_back(
              "{\"oracle\":\"atomic_flag\",\"program\":\"atomic_flag sequence\",\"text\":\"test_and_set differs from std\"}");
          }
          break;
        }
      }
    }
  }
  yaclib_std::atomic_thread_fence(std::memory_order_acquire);
  yaclib_std::atomic_thread_fence(std::memory_order_release);
  yaclib_std::atomic_thread_fence(std::memory_order_seq_cst);
  yaclib_std::atomic_signal_fence(std::memory_order_seq_cst);
}

}  // namespace

int main(int argc, char** argv) {
  int tier = 0;
  std::string out;
  for (int i = 1; i < argc; ++i) {
    std::string a = argv[i];
    if (a == "--tier" && i + 1 < argc) {
      tier = std::string(argv[++i]) == "thorough" ? 1 : 0;
    } else if (a == "--out" && i + 1 < argc) {
      out = argv[++i];
    } else if ((a == "--shard" || a == "--nshards" || a == "--deadline") && i + 1 < argc) {
      ++i;  // single shard, runs in seconds
    }
  }
  yaclib::SetFaultFrequency(0xffffffffu);  // no yields / sleeps: this is a single-threaded differential run
  const int small_len = tier == 0 ? 2 : 3;
  // small alphabets (few operand values) can afford one more step
  RunType<bool>("bool", tier, small_len + 1);
  RunType<std::int8_t>("int8_t", tier, 2);
  RunType<std::uint8_t>("uint8_t", tier, 2);
  RunType<std::int16_t>("int16_t", tier, 2);
  RunType<std::uint16_t>("uint16_t", tier, 2);
  RunType<std::int32_t>("int32_t", tier, 2);
  RunType<std::uint32_t>("uint32_t", tier, 2);
  RunType<std::int64_t>("int64_t", tier, 2);
  RunType<std::uint64_t>("uint64_t", tier, tier == 0 ? 2 : 2);
  RunType<int*>("int*", tier, small_len);
  RunType<float>("float", tier, 2);
  RunType<double>("double", tier, 2);
  RunFlag();
  std::string js = "{\"harness\":\"atomic_diff\",\"property\":\"C19\",\"cells\":[{\"cell\":\"backend=";
  js += gBackend;
  js += "\",";
  char b[400];
  std::snprintf(b, sizeof(b),
                "\"executions\":%llu,\"nodes\":%llu,\"transitions\":%llu,\"distinct_traces\":%llu,\"distinct_outcomes\":2,"
                "\"exhaustive\":true,\"failing_executions\":%llu,",
                static_cast<unsigned long long>(gStats.sequences), static_cast<unsigned long long>(gStats.sequences),
                static_cast<unsigned long long>(gStats.ops), static_cast<unsigned long long>(gStats.distinct_ops + 1),
                static_cast<unsigned long long>(gStats.mismatches));
  js += b;
  js += "\"sample_programs\":[";
  for (std::size_t i = 0; i < gStats.samples.size(); ++i) {
    js += (i ? ",\"" : "\"") + gStats.samples[i] + "\"";
  }
  js += "],\"violations\":[";
  for (std::size_t i = 0; i < gStats.findings.size(); ++i) {
    js += (i ? "," : "") + gStats.findings[i];
  }
  js += "]}]}\n";
  if (out.empty()) {
    std::fputs(js.c_str(), stdout);
  } else {
    FILE* f = std::fopen(out.c_str(), "w");
    std::fputs(js.c_str(), f);
    std::fclose(f);
  }
  return gStats.mismatches != 0 ? 1 : 0;
}
