// Harness `chain` (C02, C12, C05 under real concurrency): the root fiber builds a two-step pipeline on a
// contract future (or a lazy Task) while a producer fiber fulfils the source, an inner producer fiber
// fulfils the future returned by an asynchronous step, and a FairThreadPool(1) worker runs the steps that
// were given the pool.  The sequential `pipeline` enumerator covers the alphabet; this harness covers the
// interleavings: fulfilment racing with the attachment of every link, the unwrapping of an inner future
// that completes before / while / after the step that returned it, and a step finishing on a worker
// while the next one is being attached.  Every step functor carries a tracked capture (ids 900+i): it
// must be alive whenever the library calls the functor and destroyed exactly once on every path and in
// every interleaving (called, skipped, dropped with the handle), and under mc-hb its destruction must be
// ordered after the call that read it.
#include "common.hpp"

#include <yaclib/async/contract.hpp>
#include <yaclib/async/future.hpp>
#include <yaclib/async/make.hpp>
#include <yaclib/async/promise.hpp>
#include <yaclib/lazy/make.hpp>
#include <yaclib/lazy/schedule.hpp>
#include <yaclib/lazy/task.hpp>
#include <yaclib/runtime/fair_thread_pool.hpp>

#include <yaclib_std/thread>

namespace vxh {

const char* const kName = "chain";
const char* const kProperty = "C02";

namespace {

using T = vx::Tracked;
using E = yaclib::StopError;
using R = yaclib::Result<T, E>;

// An executor that hands every job to a FairThreadPool and records, while the job runs, that it runs
// under this executor.
class TaggedPool final : public yaclib::IExecutor {
 public:
  explicit TaggedPool(yaclib::FairThreadPool* pool) : _pool{pool} {
  }
  Type Tag() const noexcept final {
    return Type::Custom;
  }
  bool Alive() const noexcept final {
    return _pool != nullptr && _pool->Alive();
  }
  void Submit(yaclib::Job& job) noexcept final {
    const int k = submits.Add(1) - 1;
    VX_EXPECT(k < kCap, "harness:queue-overflow", "TaggedPool: too many jobs");
    if (k >= kCap || _pool == nullptr) {
      job.Drop();
      return;
    }
    _slots[k].inner = &job;
    _slots[k].tag = this;
    _pool->Submit(_slots[k]);
  }
  vx::Shared submits{500};

 private:
  struct Slot final : yaclib::Job {
    yaclib::Job* inner = nullptr;
    const void* tag = nullptr;
    void Call() noexcept final {
      ExecScope scope{tag};
      inner->Call();
    }
    void Drop() noexcept final {
      inner->Drop();
    }
  };
  static constexpr int kCap = 8;
  yaclib::FairThreadPool* _pool;
  Slot _slots[kCap];
};

// ---- reference -------------------------------------------------------------------------------------
struct Ref {
  char state = 'V';
  int code = 7;
  int calls[3] = {0, 0, 0};  // how often the callback of step i must run
};

// step kinds: I ThenInline(value), E Then(inline executor, value), Q Then(pool, value), R ThenInline(Result -> value),
//             A ThenInline(Result -> inner Future fulfilled with a value), a ... inner promise dropped,
//             T ThenInline(value) that throws
void RefStep(Ref& r, char kind, int i) {
  switch (kind) {
    case 'I':
    case 'E':
    case 'Q':
      if (r.state == 'V') {
        r.calls[i] = 1;
        r.code = r.code * 10 + i + 1;
      }
      break;
    case 'R':
      r.calls[i] = 1;
      r.state = 'V';
      r.code = 50 + i;
      break;
    case 'A':
      r.calls[i] = 1;
      r.state = 'V';
      r.code = 60 + i;
      break;
    case 'a':
      r.calls[i] = 1;
      r.state = 'E';
      r.code = -1;
      break;
    default:  // T
      if (r.state == 'V') {
        r.calls[i] = 1;
        r.state = 'X';
        r.code = i;
      }
      break;
  }
}

struct World {
  TestExecutor e[3] = {TestExecutor{TestExecutor::kInline}, TestExecutor{TestExecutor::kInline}, TestExecutor{TestExecutor::kInline}};
  yaclib::IntrusivePtr<yaclib::FairThreadPool> pool;
  TaggedPool* tp = nullptr;
  vx::Shared calls[3] = {vx::Shared{510}, vx::Shared{511}, vx::Shared{515}};
  vx::Shared finished[3] = {vx::Shared{512}, vx::Shared{513}, vx::Shared{516}};
  vx::Shared started{514};  // lazy: set right before the start call
  const void* ran_under[3] = {nullptr, nullptr, nullptr};
  bool lazy = false;
  yaclib::Future<T, E> inner[3];
};

void Enter(World& w, int i) {
  const int n = w.calls[i].Add(1);
  VX_EXPECT(n == 1, "step-at-most-once", "the callback of step %d ran %d times", i, n);
  for (int j = 0; j < i; ++j) {
    VX_EXPECT(w.finished[j].Get() != 0 || w.calls[j].Get() == 0, "steps-in-order", "step %d ran while step %d was still running", i, j);
  }
  if (w.lazy) {
    VX_EXPECT(w.started.Get() == 1, "nothing-before-start", "step %d of a lazy pipeline ran before the Task was started", i);
  }
  w.ran_under[i] = CurrentExecutorTag();
}

// FutureOn -> Future, everything else as it is: every step maps a handle type to itself
template <typename H>
auto Norm(H&& h) {
  if constexpr (std::is_same_v<std::decay_t<H>, yaclib::FutureOn<T, E>>) {
    return std::move(h).On(nullptr);
  } else {
    return std::move(h);
  }
}

template <typename H>
auto Apply(World& w, H&& h, char kind, int i) {
  auto value_cb = [&w, i, g = T{900 + i}](T&& v) {
    Enter(w, i);
    VX_EXPECT(g.Get() == 900 + i, "functor-intact", "capture of step %d reads %d", i, g.Raw());
    T out{v.Get() * 10 + i + 1};
    w.finished[i].Set(1);
    return out;
  };
  switch (kind) {
    case 'I':
      return Norm(std::move(h).ThenInline(value_cb));
    case 'E':
      return Norm(std::move(h).Then(w.e[i], value_cb));
    case 'Q':
      return Norm(std::move(h).Then(*w.tp, value_cb));
    case 'R':
      return Norm(std::move(h).ThenInline([&w, i, g = T{900 + i}](R&& r) {
        Enter(w, i);
        VX_EXPECT(g.Get() == 900 + i, "functor-intact", "capture of step %d reads %d", i, g.Raw());
        (void)r;
        w.finished[i].Set(1);
        return T{50 + i};
      }));
    case 'A':
    case 'a':
      return Norm(std::move(h).ThenInline([&w, i, g = T{900 + i}](R&& r) {
        Enter(w, i);
        VX_EXPECT(g.Get() == 900 + i, "functor-intact", "capture of step %d reads %d", i, g.Raw());
        (void)r;
        w.finished[i].Set(1);
        return std::move(w.inner[i]);
      }));
    default:
      return Norm(std::move(h).ThenInline([&w, i, g = T{900 + i}](T&& v) -> T {
        Enter(w, i);
        VX_EXPECT(g.Get() == 900 + i, "functor-intact", "capture of step %d reads %d", i, g.Raw());
        (void)v;
        w.finished[i].Set(1);
        throw Boom{i};
      }));
  }
}

void Run(const vx::Cell& cell) {
  ResetExecCtx();
  const std::string& src = cell.Str("src");
  const std::string& steps = cell.Str("steps");
  const std::string& fin = cell.Str("fin");
  Ref ref;
  if (src == "error" || src == "drop") {
    ref.state = 'E';
    ref.code = -1;
  } else if (src == "exception") {
    ref.state = 'X';
    ref.code = 3;
  }
  const int n = static_cast<int>(steps.size());
  for (int i = 0; i < n; ++i) {
    RefStep(ref, steps[static_cast<std::size_t>(i)], i);
  }
  Seen seen;
  const bool uses_pool = steps.find('Q') != std::string::npos || src == "task";
  {
    World w;
    w.lazy = src == "task";
    if (uses_pool) {
      w.pool = yaclib::MakeFairThreadPool(1);
    }
    TaggedPool tagged{w.pool.Get()};
    w.tp = &tagged;
    std::vector<yaclib_std::thread> ts;
    ts.reserve(4);
    yaclib::Promise<T, E> inner_p[3];
    for (int i = 0; i < n; ++i) {
      const char k = steps[static_cast<std::size_t>(i)];
      if (k == 'A' || k == 'a') {
        auto [f, p] = yaclib::MakeContract<T, E>();
        w.inner[i] = std::move(f);
        inner_p[i] = std::move(p);
      }
    }
    // the fibers that complete things
    for (int i = 0; i < n; ++i) {
      const char k = steps[static_cast<std::size_t>(i)];
      if (k == 'A') {
        ts.emplace_back([i, p = std::move(inner_p[i])]() mutable {
          std::move(p).Set(T{60 + i});
        });
      } else if (k == 'a') {
        ts.emplace_back([p = std::move(inner_p[i])]() mutable {
          auto dead = std::move(p);
        });
      }
    }
    yaclib::Future<T, E> out;
    if (!w.lazy) {
      auto [f, p] = yaclib::MakeContract<T, E>();
      ts.emplace_back([&src, p = std::move(p)]() mutable {
        if (src == "value") {
          std::move(p).Set(T{7});
        } else if (src == "error") {
          std::move(p).Set(yaclib::StopTag{});
        } else if (src == "exception") {
          std::move(p).Set(std::make_exception_ptr(Boom{3}));
        } else {
          auto dead = std::move(p);
        }
      });
      auto h = Apply(w, std::move(f), steps[0], 0);
      for (int i = 1; i < n; ++i) {
        h = Apply(w, std::move(h), steps[static_cast<std::size_t>(i)], i);
      }
      out = std::move(h);
    } else {
      // lazy twin: nothing may run before the start call
      auto head = yaclib::Schedule<E>(tagged, [] {
        return T{7};
      });
      auto t = Apply(w, std::move(head), steps[0], 0);
      for (int i = 1; i < n; ++i) {
        t = Apply(w, std::move(t), steps[static_cast<std::size_t>(i)], i);
      }
      VX_EXPECT(w.calls[0].Get() == 0 && w.calls[1].Get() == 0 && w.calls[2].Get() == 0 && tagged.submits.Get() == 0,
                "nothing-before-start", "a lazy pipeline ran a step or submitted work while it was being built");
      w.started.Set(1);
      out = std::move(t).ToFuture();
    }
    if (fin == "Get") {
      R r = std::move(out).Get();
      Observe(seen, r);
    } else if (fin == "DetachInline") {
      std::move(out).DetachInline([&seen](R&& r) {
        Observe(seen, r);
      });
    } else {
      auto dead = std::move(out);
    }
    for (auto& t : ts) {
      t.join();
    }
    if (w.pool) {
      // everything submitted must have run before the pool is told to stop after draining
      w.pool->SoftStop();
      w.pool->Wait();
    }
    for (int i = 0; i < n; ++i) {
      const char k = steps[static_cast<std::size_t>(i)];
      VX_EXPECT(w.calls[i].Get() == ref.calls[i], "step-exactly-when-due", "the callback of step %d (%c) ran %d time(s), the reference says %d",
                i, k, w.calls[i].Get(), ref.calls[i]);
      if (k == 'E') {
        VX_EXPECT(w.e[i].submits == 1, "submitted-once", "executor of step %d received %d submissions, expected 1", i, w.e[i].submits);
        if (ref.calls[i] == 1) {
          VX_EXPECT(w.ran_under[i] == &w.e[i], "runs-inside-executor", "step %d did not run inside the executor it was given", i);
        }
      } else if (k == 'Q' && ref.calls[i] == 1) {
        VX_EXPECT(w.ran_under[i] == &tagged, "runs-inside-executor", "step %d did not run on the pool it was given", i);
      }
    }
    const int pool_steps = static_cast<int>(std::count(steps.begin(), steps.end(), 'Q')) + (w.lazy ? 1 : 0);
    VX_EXPECT(tagged.submits.Get() == pool_steps, "submitted-once", "the pool received %d submissions, expected %d", tagged.submits.Get(),
              pool_steps);
  }
  if (fin != "drop") {
    VX_EXPECT(seen.count == 1, "final-exactly-once", "the final result was observed %d time(s)", seen.count);
    VX_EXPECT(seen.state == ref.state && seen.code == ref.code, "differs-from-reference", "final result (%c,%d), the reference says (%c,%d)",
              seen.state, seen.code, ref.state, ref.code);
  }
  vx::Outcome("%c%d", seen.state, seen.code);
}

}  // namespace

std::vector<std::string> Cells(int tier) {
  std::vector<std::string> cells;
  const std::string kinds = "IEQRAaT";
  for (const char* src : {"value", "error", "exception", "drop", "task"}) {
    for (char s0 : kinds) {
      for (char s1 : kinds) {
        for (const char* fin : {"Get", "DetachInline", "drop"}) {
          const std::string f{fin};
          const std::string s{src};
          if (tier == 0) {
            // quick: every step pair with Get on the value / error / task sources; the other finishes and
            // sources on the pairs that contain an asynchronous or pool step
            const bool rich = s0 == 'A' || s1 == 'A' || s0 == 'Q' || s1 == 'Q' || s0 == 'a' || s1 == 'a';
            if (f != "Get" && !(rich && (s == "value" || s == "task"))) {
              continue;
            }
            if ((s == "exception" || s == "drop") && !rich) {
              continue;
            }
          }
          cells.push_back(std::string{"src="} + src + ",steps=" + s0 + s1 + ",fin=" + fin);
        }
      }
    }
  }
  if (tier > 0) {
    // three steps: every triple, finished by Get, on a fulfilled, a failing and a lazy source
    for (const char* src : {"value", "error", "task"}) {
      for (char s0 : kinds) {
        for (char s1 : kinds) {
          for (char s2 : kinds) {
            cells.push_back(std::string{"src="} + src + ",steps=" + s0 + s1 + s2 + ",fin=Get");
          }
        }
      }
    }
  }
  return cells;
}

bool CellBounds(const vx::Cell& cell, int tier, vx::Bounds& b) {
  const std::string& steps = cell.Str("steps");
  int fibers = 2;  // root + producer (or root + worker for a task)
  for (char k : steps) {
    fibers += (k == 'A' || k == 'a') ? 1 : 0;
  }
  if (steps.find('Q') != std::string::npos && !cell.Is("src", "task")) {
    ++fibers;
  }
  b.S = 1;
  b.T = 0;
  if (fibers <= 4) {
    b.P = 99;  // all interleavings
  } else if (fibers == 5) {
    b.P = tier == 0 ? 3 : 4;
  } else {
    b.P = 3;
  }
  return true;
}

void Body(const vx::Cell& cell) {
  Run(cell);
}

}  // namespace vxh
