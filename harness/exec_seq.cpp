// Sequential enumerator `exec_seq` (C05, C07): every operation sequence up to a bound over the library's own
// single-threaded executors -- MakeInline(), MakeInline(StopTag), ManualExecutor -- and an instrumented queueing
// executor that starts refusing work at a chosen moment, each used directly, through a Strand and through a
// Strand over a Strand.  Operations: submit a counted job, submit a job that submits another one from inside
// Call (re-entrant), yaclib::Submit of a functor with a tracked capture, drain the underlying queue, make the
// underlying executor refuse from now on.  A plain list model says what must have happened.
#include "common.hpp"

#include <yaclib/exe/inline.hpp>
#include <yaclib/exe/manual.hpp>
#include <yaclib/exe/strand.hpp>
#include <yaclib/exe/submit.hpp>

#include <sys/mman.h>
#include <sys/wait.h>
#include <unistd.h>

#include <chrono>
#include <cstdio>
#include <cstring>
#include <string>
#include <vector>

namespace vx {
extern std::int64_t gAllocLive;
bool SeqFailed();
const char* SeqOracle();
const char* SeqText();
void SeqReset();
int LedgerAlive();
}  // namespace vx

namespace {

using vxh::TestExecutor;

constexpr int kMaxJobs = 24;

struct World;

struct CJob final : yaclib::Job {
  World* w = nullptr;
  int id = 0;
  int child = -1;       // submitted to the executor under test from inside Call
  int drop_child = -1;  // submitted to the executor under test from inside Drop (a pipeline step handing on StopError)
  void Call() noexcept final;
  void Drop() noexcept final;
};

struct World {
  yaclib::IExecutor* top = nullptr;  // the executor under test (strand, or the underlying one)
  bool is_strand = false;
  CJob jobs[kMaxJobs];
  int njobs = 0;
  int calls[kMaxJobs];
  int drops[kMaxJobs];
  int submit_order[kMaxJobs];  // ids in the order their Submit was issued
  int nsubmitted = 0;
  int call_order[kMaxJobs];
  int ncalled = 0;
  int depth = 0;           // jobs currently inside Call
  bool in_drain = false;   // the underlying queue is being drained
  bool queueing = false;   // the underlying executor queues (manual / test queue): calls only inside a drain
  bool refusing = false;   // the underlying executor has refused (or is refusing) work
  bool always_refuses = false;

  int NewJob() {
    const int id = njobs++;
    jobs[id].w = this;
    jobs[id].id = id;
    jobs[id].child = -1;
    jobs[id].drop_child = -1;
    calls[id] = drops[id] = 0;
    return id;
  }
  void SubmitJob(int id) {
    submit_order[nsubmitted++] = id;
    top->Submit(jobs[id]);
  }
};

void CJob::Call() noexcept {
  ++w->calls[id];
  w->call_order[w->ncalled++] = id;
  ++w->depth;
  VX_EXPECT(!w->is_strand || w->depth == 1, "strand:no-overlap", "job %d was called while another job of the strand was still inside Call", id);
  VX_EXPECT(!w->queueing || w->in_drain, "exec:runs-inside-executor", "job %d was called outside a drain of the queueing executor", id);
  if (child >= 0) {
    w->SubmitJob(child);
  }
  --w->depth;
}
void CJob::Drop() noexcept {
  ++w->drops[id];
  VX_EXPECT(w->refusing || w->always_refuses, "exec:drop-only-when-refusing", "job %d was dropped although the underlying executor never refused work", id);
  if (drop_child >= 0) {
    w->SubmitJob(drop_child);
  }
}

struct Stats {
  unsigned long long sequences, ops, findings_total;
  int nfind;
  char findings[40][900];
  char keys[40][160];
  char in_flight[64];
  int done;
  int capped;
};
Stats* gS = nullptr;

const char* const kUnder[] = {"inline", "inline-stopped", "manual", "queue"};
const char* const kWrap[] = {"direct", "strand", "strand-over-strand"};

void AddFinding(const std::string& cfg, const std::string& seq, const char* oracle, const char* text) {
  ++gS->findings_total;
  const std::string key = cfg + "|" + oracle;
  for (int i = 0; i < gS->nfind; ++i) {
    if (key == gS->keys[i]) {
      return;
    }
  }
  if (gS->nfind >= 40) {
    return;
  }
  std::snprintf(gS->keys[gS->nfind], sizeof(gS->keys[0]), "%s", key.c_str());
  std::string t = text;
  for (auto& ch : t) {
    if (ch == '"' || ch == '\\') {
      ch = '\'';
    }
  }
  std::snprintf(gS->findings[gS->nfind++], sizeof(gS->findings[0]), "{\"oracle\":\"%s\",\"program\":\"%s ops=%s\",\"text\":\"%s\"}", oracle,
                cfg.c_str(), seq.c_str(), t.substr(0, 600).c_str());
}

// ops: s submit, r submit a job that submits another from inside Call, f yaclib::Submit(functor), d drain, x refuse from now on
void RunSequence(int under, int wrap, const std::string& seq) {
  vx::SeqReset();
  const std::int64_t live0 = vx::gAllocLive;
  int functor_runs = 0;
  int functors = 0;
  int functor_accepted_min = 0;
  {
    World w;
    TestExecutor queue{TestExecutor::kQueue};
    yaclib::IExecutorPtr manual = under == 2 ? yaclib::MakeManual() : yaclib::IExecutorPtr{};
    yaclib::IExecutor* base = under == 0   ? &yaclib::MakeInline()
                              : under == 1 ? &yaclib::MakeInline(yaclib::StopTag{})
                              : under == 2 ? manual.Get()
                                           : static_cast<yaclib::IExecutor*>(&queue);
    w.queueing = under >= 2;
    w.always_refuses = under == 1;
    yaclib::IExecutorPtr s1, s2;
    w.top = base;
    if (wrap >= 1) {
      s1 = yaclib::MakeStrand(yaclib::IExecutorPtr{base});
      w.top = s1.Get();
      w.is_strand = true;
    }
    if (wrap == 2) {
      s2 = yaclib::MakeStrand(s1);
      w.top = s2.Get();
    }
    auto drain = [&] {
      w.in_drain = true;
      if (under == 2) {
        (void)static_cast<yaclib::ManualExecutor*>(manual.Get())->Drain();
      } else if (under == 3) {
        queue.Drain();
      }
      w.in_drain = false;
    };
    for (char op : seq) {
      ++gS->ops;
      switch (op) {
        case 's':
          w.SubmitJob(w.NewJob());
          break;
        case 'r': {
          const int a = w.NewJob();
          const int b = w.NewJob();
          w.jobs[a].child = b;
          w.SubmitJob(a);
        } break;
        case 'q': {
          // like a pipeline step on this executor whose next step is on it too: when it is dropped it submits the next one
          const int a = w.NewJob();
          const int b = w.NewJob();
          w.jobs[a].drop_child = b;
          w.SubmitJob(a);
        } break;
        case 'f': {
          ++functors;
          if (!w.refusing && !w.always_refuses) {
            ++functor_accepted_min;
          }
          yaclib::Submit(*w.top, [t = vx::Tracked{100 + functors}, &functor_runs, &w] {
            ++functor_runs;
            VX_EXPECT(!w.queueing || w.in_drain, "exec:runs-inside-executor", "a submitted functor ran outside a drain of the queueing executor");
            (void)t.Get();
          });
        } break;
        case 'd':
          drain();
          break;
        default:  // x
          queue.RejectFromNow();
          w.refusing = true;
          break;
      }
    }
    // quiescence: drain until nothing is left (a re-entrant job may queue more work)
    for (int i = 0; i < 8; ++i) {
      drain();
    }
    // ---- the list model ----
    for (int id = 0; id < w.njobs; ++id) {
      bool submitted = false;
      for (int k = 0; k < w.nsubmitted; ++k) {
        submitted = submitted || w.submit_order[k] == id;
      }
      if (!submitted) {
        // the child of a re-entrant job that was dropped is never submitted
        VX_EXPECT(w.calls[id] + w.drops[id] == 0, "exec:call-xor-drop", "job %d was never submitted but finished %d/%d (calls/drops)", id, w.calls[id],
                  w.drops[id]);
        continue;
      }
      VX_EXPECT(w.calls[id] + w.drops[id] == 1, "exec:call-xor-drop", "job %d finished with %d call(s) and %d drop(s)", id, w.calls[id], w.drops[id]);
      if (w.always_refuses) {
        VX_EXPECT(w.drops[id] == 1, "exec:stopped-drops", "job %d was not dropped by a stopped executor", id);
      } else if (!w.refusing) {
        VX_EXPECT(w.calls[id] == 1, "exec:accepted-runs", "job %d was not called although the underlying executor never refused work", id);
      }
    }
    // calls happen in the order the submissions took effect (one submitting thread: program order)
    int pos = 0;
    for (int k = 0; k < w.ncalled; ++k) {
      const int id = w.call_order[k];
      while (pos < w.nsubmitted && w.submit_order[pos] != id) {
        ++pos;
      }
      VX_EXPECT(pos < w.nsubmitted, "exec:fifo", "job %d was called out of submission order", id);
      if (pos >= w.nsubmitted) {
        break;
      }
    }
    VX_EXPECT(functor_runs <= functors && functor_runs >= functor_accepted_min, "exec:functor-runs",
              "%d of %d submitted functors ran, at least %d were submitted while the executor accepted work", functor_runs, functors,
              functor_accepted_min);
    if (under == 3) {
      VX_EXPECT(queue.Pending() == 0, "harness:drained", "the queue still holds %d jobs", queue.Pending());
    }
  }
  VX_EXPECT(vx::LedgerAlive() == 0, "ledger:leak", "%d tracked capture(s) of submitted functors still alive at the end", vx::LedgerAlive());
  VX_EXPECT(vx::gAllocLive == live0, "alloc:leak", "%lld heap block(s) still live after every executor was destroyed",
            static_cast<long long>(vx::gAllocLive - live0));
  ++gS->sequences;
  if (vx::SeqFailed()) {
    AddFinding(std::string{"under="} + kUnder[under] + ",wrap=" + kWrap[wrap], seq, vx::SeqOracle(), vx::SeqText());
  }
}

double NowS() {
  return std::chrono::duration<double>(std::chrono::steady_clock::now().time_since_epoch()).count();
}

void Enumerate(int under, int wrap, int maxlen, double t_end) {
  const std::string alphabet = under == 3 ? "srqfdx" : (under == 2 ? "srfd" : (under == 1 ? "srqf" : "srf"));
  std::string seq;
  // iterative deepening over lengths 1..maxlen, simplest first
  for (int len = 1; len <= maxlen; ++len) {
    std::vector<int> idx(static_cast<std::size_t>(len), 0);
    for (;;) {
      seq.clear();
      int xs = 0;
      int jobs = 0;
      for (int i : idx) {
        const char op = alphabet[static_cast<std::size_t>(i)];
        seq += op;
        xs += op == 'x' ? 1 : 0;
        jobs += (op == 'r' || op == 'q') ? 2 : (op == 's' ? 1 : 0);
      }
      if (xs <= 1 && jobs <= kMaxJobs) {
        std::snprintf(gS->in_flight, sizeof(gS->in_flight), "under=%s,wrap=%s ops=%s", kUnder[under], kWrap[wrap], seq.c_str());
        RunSequence(under, wrap, seq);
      }
      int pos = len - 1;
      while (pos >= 0 && ++idx[static_cast<std::size_t>(pos)] == static_cast<int>(alphabet.size())) {
        idx[static_cast<std::size_t>(pos--)] = 0;
      }
      if (pos < 0) {
        break;
      }
      if ((gS->sequences & 1023) == 0 && t_end > 0 && NowS() > t_end) {
        gS->capped = 1;
        return;
      }
    }
  }
}

}  // namespace

int main(int argc, char** argv) {
  std::string out;
  int tier = 0;
  double deadline = 0;
  std::string replay;
  for (int i = 1; i < argc; ++i) {
    const std::string a = argv[i];
    if (a == "--replay" && i + 1 < argc) {
      replay = argv[++i];
    } else if (a == "--out" && i + 1 < argc) {
      out = argv[++i];
    } else if (a == "--tier" && i + 1 < argc) {
      tier = std::string{argv[++i]} == "thorough" ? 1 : 0;
    } else if (a == "--deadline" && i + 1 < argc) {
      deadline = std::atof(argv[++i]);
    } else if (i + 1 < argc) {
      ++i;
    }
  }
  if (!replay.empty()) {
    // runs the one sequence of a replay file (field "program": "under=U,wrap=W ops=OPS") without any enumeration
    std::string text;
    if (FILE* f = std::fopen(replay.c_str(), "r")) {
      char buf[4096];
      std::size_t n;
      while ((n = std::fread(buf, 1, sizeof(buf), f)) > 0) {
        text.append(buf, n);
      }
      std::fclose(f);
    }
    const auto pu = text.find("under=");
    const auto pw = text.find(",wrap=", pu);
    const auto po = text.find(" ops=", pw);
    if (pu == std::string::npos || pw == std::string::npos || po == std::string::npos) {
      std::fprintf(stderr, "no program in %s\n", replay.c_str());
      return 2;
    }
    const std::string u = text.substr(pu + 6, pw - pu - 6);
    const std::string w = text.substr(pw + 6, po - pw - 6);
    const std::string ops = text.substr(po + 5, text.find_first_of("\"\\ ,}", po + 5) - po - 5);
    int under = -1, wrap = -1;
    for (int i = 0; i < 4; ++i) {
      under = u == kUnder[i] ? i : under;
    }
    for (int i = 0; i < 3; ++i) {
      wrap = w == kWrap[i] ? i : wrap;
    }
    if (under < 0 || wrap < 0) {
      std::fprintf(stderr, "unknown configuration under=%s wrap=%s\n", u.c_str(), w.c_str());
      return 2;
    }
    static Stats one;
    gS = &one;
    std::printf("replay harness=exec_seq under=%s wrap=%s ops=%s\n", u.c_str(), w.c_str(), ops.c_str());
    std::fflush(stdout);
    RunSequence(under, wrap, ops);
    for (int i = 0; i < one.nfind; ++i) {
      std::printf("FAILS %s\n", one.findings[i]);
    }
    std::printf(one.nfind != 0 ? "RESULT violation\n" : "RESULT clean\n");
    return one.nfind != 0 ? 1 : 0;
  }
  // one child per configuration, all at once: a crash is recorded with the sequence in flight and ends only that configuration
  constexpr int kConfigs = 12;
  Stats* all = static_cast<Stats*>(mmap(nullptr, sizeof(Stats) * (kConfigs + 1), PROT_READ | PROT_WRITE, MAP_SHARED | MAP_ANONYMOUS, -1, 0));
  std::memset(static_cast<void*>(all), 0, sizeof(Stats) * (kConfigs + 1));
  const double t_end = deadline > 0 ? NowS() + deadline : 0;
  const int maxlen = tier == 0 ? 8 : 10;
  pid_t pids[kConfigs];
  for (int c = 0; c < kConfigs; ++c) {
    pids[c] = fork();
    if (pids[c] == 0) {
      gS = &all[c];
      Enumerate(c / 3, c % 3, maxlen, t_end);
      gS->done = 1;
      _exit(0);
    }
  }
  Stats* total = &all[kConfigs];
  for (int c = 0; c < kConfigs; ++c) {
    int status = 0;
    waitpid(pids[c], &status, 0);
    gS = &all[c];
    if (gS->done == 0) {
      char what[64];
      if (WIFSIGNALED(status)) {
        std::snprintf(what, sizeof(what), "crash:signal-%d", WTERMSIG(status));
      } else {
        std::snprintf(what, sizeof(what), "crash:exit-%d", WEXITSTATUS(status));
      }
      const std::string fl = gS->in_flight;
      const auto sp = fl.find(" ops=");
      AddFinding(fl.substr(0, sp), sp == std::string::npos ? "" : fl.substr(sp + 5), what,
                 "the sequence terminated the process (sanitizer report / signal / std::terminate); the rest of this configuration was not explored");
    }
    total->sequences += gS->sequences;
    total->ops += gS->ops;
    total->findings_total += gS->findings_total;
    total->capped |= gS->capped;
    for (int k = 0; k < gS->nfind && total->nfind < 40; ++k) {
      std::memcpy(total->findings[total->nfind++], gS->findings[k], sizeof(gS->findings[0]));
    }
  }
  gS = total;
  std::string js = "{\"harness\":\"exec_seq\",\"property\":\"C05\",\"cells\":[{\"cell\":\"4 executors x direct/strand/strand-over-strand, all op sequences\",";
  char b[400];
  std::snprintf(b, sizeof(b),
                "\"executions\":%llu,\"nodes\":%llu,\"transitions\":%llu,\"distinct_traces\":%llu,\"distinct_outcomes\":1,"
                "\"exhaustive\":%s,\"cap\":\"%s\",\"failing_executions\":%llu,\"max_depth\":%d,",
                gS->sequences, gS->sequences, gS->ops, gS->sequences, gS->capped ? "false" : "true", gS->capped ? "deadline" : "", gS->findings_total,
                maxlen);
  js += b;
  js += "\"sample_programs\":[\"under=manual,wrap=strand ops=srfd\",\"under=queue,wrap=strand-over-strand ops=rsxfd\"],\"violations\":[";
  for (int i = 0; i < gS->nfind; ++i) {
    js += (i ? "," : "") + std::string{gS->findings[i]};
  }
  js += "]}]}\n";
  if (out.empty()) {
    std::fputs(js.c_str(), stdout);
  } else {
    FILE* f = std::fopen(out.c_str(), "w");
    std::fputs(js.c_str(), f);
    std::fclose(f);
  }
  return gS->findings_total != 0 ? 1 : 0;
}
