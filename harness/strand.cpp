// Harness `strand` (C07): k submitter fibers push counted jobs into a Strand over {an inline executor,
// FairThreadPool(1), FairThreadPool(2), another strand over a pool}, optionally while a further fiber
// stops the underlying executor at any moment.
#include "common.hpp"

#include <yaclib/exe/strand.hpp>
#include <yaclib/runtime/fair_thread_pool.hpp>

#include <yaclib_std/atomic>
#include <yaclib_std/thread>

namespace vxh {

const char* const kName = "strand";
const char* const kProperty = "C07";

namespace {

// Inline executor that can be stopped from another fiber.
class StoppableInline final : public yaclib::IExecutor {
 public:
  Type Tag() const noexcept final {
    return Type::Custom;
  }
  bool Alive() const noexcept final {
    return !_stopped.load(std::memory_order_acquire);
  }
  void Submit(yaclib::Job& job) noexcept final {
    if (_stopped.load(std::memory_order_acquire)) {
      job.Drop();
    } else {
      job.Call();
    }
  }
  void Stop() {
    _stopped.store(true, std::memory_order_release);
  }

 private:
  yaclib_std::atomic<bool> _stopped{false};
};

struct World;

struct SJob final : yaclib::Job {
  World* w = nullptr;
  int id = 0;
  int calls = 0;
  int drops = 0;
  void Call() noexcept final;
  void Drop() noexcept final;
};

struct World {
  int inside = 0;        // plain: jobs of one strand never overlap, so this is race-free iff the strand is right
  int order[8];          // ids in execution order (plain, written by every job)
  int norder = 0;
  int last_writer = -1;  // plain field written by every job: consecutive jobs must be ordered by happens-before
  bool may_drop = false;
};

void SJob::Call() noexcept {
  ++calls;
  ++w->inside;
  VX_EXPECT(w->inside == 1, "no-overlap", "job %d started while another job of the same strand is running", id);
  vx::Point();  // a scheduling point inside the job
  w->last_writer = id;
  if (w->norder < 8) {
    w->order[w->norder++] = id;
  }
  VX_EXPECT(w->inside == 1, "no-overlap", "another job of the same strand started while job %d was running", id);
  --w->inside;
}

void SJob::Drop() noexcept {
  ++drops;
  VX_EXPECT(w->may_drop, "drop-only-if-refused", "job %d was dropped although the underlying executor never refuses work", id);
}

void RunCell(const vx::Cell& cell) {
  const std::string& under = cell.Str("under");
  const int k = cell.Int("k", 2);
  const int j = cell.Int("j", 1);
  const std::string& stop = cell.Str("stop");
  const bool chain = cell.Is("chain", "1");
  World w;
  w.may_drop = stop != "none";
  SJob jobs[6];
  const int njobs = k * j;
  for (int i = 0; i < njobs; ++i) {
    jobs[i].w = &w;
    jobs[i].id = i;
  }
  {
    StoppableInline inl;
    yaclib::IntrusivePtr<yaclib::FairThreadPool> pool;
    yaclib::IExecutorPtr base;
    if (under == "inline") {
      base = yaclib::IExecutorPtr{&inl};
    } else {
      pool = yaclib::MakeFairThreadPool(under == "pool2" ? 2 : 1);
      base = pool;
    }
    yaclib::IExecutorPtr strand = yaclib::MakeStrand(base);
    if (under == "strand-pool1") {
      strand = yaclib::MakeStrand(strand);
    }
    std::vector<yaclib_std::thread> ts;
    ts.reserve(4);
    // chain=1: submitter s+1 is started by submitter s after its own submissions returned, so the
    // submissions of different fibers are ordered (by the spawn) and must run in that order
    std::function<void(int)> submitter = [&](int sidx) {
      for (int q = 0; q < j; ++q) {
        strand->Submit(jobs[sidx * j + q]);
      }
      if (chain && sidx + 1 < k) {
        yaclib_std::thread next{[&submitter, sidx] {
          submitter(sidx + 1);
        }};
        next.join();
      }
    };
    if (chain) {
      ts.emplace_back([&submitter] {
        submitter(0);
      });
    } else {
      for (int sidx = 0; sidx < k; ++sidx) {
        ts.emplace_back([&submitter, sidx] {
          submitter(sidx);
        });
      }
    }
    if (stop != "none") {
      ts.emplace_back([&] {
        if (pool) {
          if (stop == "hard") {
            pool->HardStop();
          } else {
            pool->Stop();
          }
        } else {
          inl.Stop();
        }
      });
    }
    for (auto& t : ts) {
      t.join();
    }
    if (pool) {
      // SoftStop: the pool stops once nothing is queued or running, i.e. after the strand drained
      pool->SoftStop();
      pool->Wait();
    }
  }
  // ---- oracles ----
  int called = 0;
  for (int i = 0; i < njobs; ++i) {
    const SJob& job = jobs[i];
    VX_EXPECT(job.calls + job.drops == 1, "call-xor-drop", "job %d: Call x%d, Drop x%d", i, job.calls, job.drops);
    called += job.calls;
  }
  VX_EXPECT(w.inside == 0, "no-overlap", "a job is still marked running at quiescence");
  VX_EXPECT(w.norder == called, "call-xor-drop", "%d jobs recorded their execution, %d were called", w.norder, called);
  // submission order: if Submit(A) returned before Submit(B) was called, A runs before B (both called)
  int pos[6];
  for (int i = 0; i < 6; ++i) {
    pos[i] = -1;
  }
  for (int i = 0; i < w.norder; ++i) {
    pos[w.order[i]] = i;
  }
  for (int a = 0; a < njobs; ++a) {
    for (int b = 0; b < njobs; ++b) {
      if (a == b || pos[a] < 0 || pos[b] < 0) {
        continue;
      }
      const bool same_submitter = a / j == b / j;
      const bool a_first = (same_submitter || chain) && a < b;
      if (a_first) {
        VX_EXPECT(pos[a] < pos[b], "submission-order", "job %d was submitted before job %d but ran after it", a, b);
      }
    }
  }
  if (stop == "none") {
    VX_EXPECT(called == njobs, "none-lost", "%d of %d jobs ran although nothing was stopped", called, njobs);
  }
  std::string o;
  for (int i = 0; i < w.norder; ++i) {
    o += static_cast<char>('0' + w.order[i]);
  }
  vx::Outcome("ran=%s dropped=%d", o.c_str(), njobs - called);
}

}  // namespace

std::vector<std::string> Cells(int tier) {
  std::vector<std::string> cells;
  for (const char* under : {"inline", "pool1", "pool2", "strand-pool1"}) {
    for (const char* stop : {"none", "stop", "hard"}) {
      if (std::string{under} == "inline" && std::string{stop} == "hard") {
        continue;
      }
      for (const char* kj : {"k=2,j=1", "k=2,j=2", "k=3,j=1"}) {
        if (std::string{kj} == "k=3,j=1" && std::string{under} != "inline" && std::string{under} != "pool1") {
          continue;
        }
        if (tier == 0 && std::string{kj} == "k=2,j=2" && std::string{under} == "pool2") {
          continue;
        }
        cells.push_back(std::string{"under="} + under + ",stop=" + stop + "," + kj + ",chain=0");
        if (std::string{kj} == "k=2,j=1") {
          cells.push_back(std::string{"under="} + under + ",stop=" + stop + "," + kj + ",chain=1");
        }
      }
    }
  }
  return cells;
}

bool CellBounds(const vx::Cell& cell, int tier, vx::Bounds& b) {
  // calibrated with tools_calibrate.py so that every cell completes (see DESIGN.md, measured costs)
  const std::string& under = cell.Str("under");
  const int k = cell.Int("k");
  const int j = cell.Int("j");
  const bool chain = cell.Is("chain", "1");
  const bool stopping = !cell.Is("stop", "none");
  if (under == "inline") {
    b.P = tier == 0 ? 3 : (k == 2 && j == 1 ? 99 : (k == 3 && stopping ? 3 : 4));
  } else if (under == "pool1") {
    if (tier == 0) {
      b.P = k == 3 ? 1 : 2;
    } else {
      b.P = (k == 2 && j == 1) ? 3 : (k == 3 && stopping ? 1 : 2);
    }
  } else if (under == "pool2") {
    b.P = (tier != 0 && chain) ? 2 : 1;
  } else {
    if (tier == 0) {
      b.P = j == 1 ? 2 : 1;
    } else {
      b.P = j == 1 ? 3 : 2;
    }
  }
  b.S = 1;
  b.T = 0;
  return true;
}

void Body(const vx::Cell& cell) {
  RunCell(cell);
}

}  // namespace vxh
