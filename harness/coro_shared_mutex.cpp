// Harness `coro_shared_mutex` (C15): r reader and w writer coroutines, each started on its own fiber,
// do 1-2 rounds on a yaclib::SharedMutex<FIFO, ReadersFIFO> through every locking form.
#include "common.hpp"

#include <yaclib/coro/await.hpp>
#include <yaclib/coro/future.hpp>
#include <yaclib/coro/guard.hpp>
#include <yaclib/coro/on.hpp>
#include <yaclib/coro/shared_mutex.hpp>
#include <yaclib/runtime/fair_thread_pool.hpp>

#include <yaclib_std/thread>

namespace vxh {

const char* const kName = "coro_shared_mutex";
const char* const kProperty = "C15";

namespace {

class Ex final : public yaclib::IExecutor {
 public:
  Type Tag() const noexcept final {
    return Type::Custom;
  }
  bool Alive() const noexcept final {
    return true;
  }
  void Submit(yaclib::Job& job) noexcept final {
    job.Call();
  }
};

struct World {
  vx::Shared writers{300};
  vx::Shared readers{301};
  vx::Shared entered{302};
  int data = 0;  // plain: written by writers, read by readers (happens-before through the lock)
  yaclib::IExecutor* exec[4] = {nullptr, nullptr, nullptr, nullptr};
};

void WriterSection(World& w, int id) {
  const int ws = w.writers.Add(1);
  const int rs = w.readers.Get();
  VX_EXPECT(ws == 1 && rs == 0, "writer-excludes-all", "writer %d is inside together with %d other writer(s) and %d reader(s)", id,
            ws - 1, rs);
  w.entered.Add(1);
  w.data = id + 1;
  vx::Point();
  VX_EXPECT(w.data == id + 1, "writer-excludes-all", "data written by writer %d was overwritten during its critical section", id);
  w.writers.Add(-1);
}

void ReaderSection(World& w, int id) {
  w.readers.Add(1);
  const int ws = w.writers.Get();
  VX_EXPECT(ws == 0, "readers-exclude-writers", "reader %d is inside together with %d writer(s)", id, ws);
  w.entered.Add(1);
  const int seen = w.data;
  vx::Point();
  VX_EXPECT(w.data == seen, "readers-exclude-writers", "data changed while reader %d was inside", id);
  w.readers.Add(-1);
}

// form: L Lock, S LockShared, G Guard, H GuardShared, T TryLock (else Lock), t TryLockShared (else LockShared),
//       U TryGuard (else Guard), u TryGuardShared (else GuardShared)
template <typename M>
yaclib::Future<> Coro(M& m, World& w, int id, const std::string forms) {
  if (w.exec[id] != nullptr) {
    co_await yaclib::On(*w.exec[id]);
  }
  for (char f : forms) {
    switch (f) {
      case 'L':
        co_await m.Lock();
        WriterSection(w, id);
        m.UnlockHere();
        break;
      case 'S':
        co_await m.LockShared();
        ReaderSection(w, id);
        m.UnlockHereShared();
        break;
      case 'G': {
        auto g = co_await m.Guard();
        WriterSection(w, id);
      } break;
      case 'H': {
        auto g = co_await m.GuardShared();
        ReaderSection(w, id);
        if (id % 2 == 0) {
          g.UnlockHere();
        }
      } break;
      case 'T':
        if (m.TryLock()) {
          VX_EXPECT(w.writers.Get() == 0 && w.readers.Get() == 0, "try-only-when-compatible", "TryLock succeeded while the lock is held");
        } else {
          co_await m.Lock();
        }
        WriterSection(w, id);
        m.UnlockHere();
        break;
      case 't':
        if (m.TryLockShared()) {
          VX_EXPECT(w.writers.Get() == 0, "try-only-when-compatible", "TryLockShared succeeded while a writer is inside");
        } else {
          co_await m.LockShared();
        }
        ReaderSection(w, id);
        m.UnlockHereShared();
        break;
      case 'U': {
        auto g = m.TryGuard();
        if (g) {
          VX_EXPECT(w.writers.Get() == 0 && w.readers.Get() == 0, "try-only-when-compatible", "TryGuard succeeded while the lock is held");
        } else {
          g = co_await m.Guard();
        }
        WriterSection(w, id);
      } break;
      default: {
        auto g = m.TryGuardShared();
        if (g) {
          VX_EXPECT(w.writers.Get() == 0, "try-only-when-compatible", "TryGuardShared succeeded while a writer is inside");
        } else {
          g = co_await m.GuardShared();
        }
        ReaderSection(w, id);
      } break;
    }
  }
  co_return{};
}

template <typename M>
void Run(const vx::Cell& cell) {
  const std::string progs[4] = {cell.Str("c0"), cell.Str("c1"), cell.Str("c2"), cell.Str("c3")};
  int k = 0;
  int sections = 0;
  while (k < 4 && !progs[k].empty()) {
    sections += static_cast<int>(progs[k].size());
    ++k;
  }
  const std::string& exe = cell.Str("exe");
  World w;
  Ex ex[4];
  yaclib::IntrusivePtr<yaclib::FairThreadPool> pool;
  if (exe == "pool1" || exe == "pool2") {
    pool = yaclib::MakeFairThreadPool(exe == "pool2" ? 2 : 1);
    for (int i = 0; i < k; ++i) {
      w.exec[i] = pool.Get();
    }
  } else if (exe == "ex") {
    for (int i = 0; i < k; ++i) {
      w.exec[i] = &ex[i];
    }
  }
  {
    M m;
    std::vector<yaclib_std::thread> ts;
    ts.reserve(4);
    for (int i = 0; i < k; ++i) {
      ts.emplace_back([&, i] {
        auto f = Coro(m, w, i, progs[i]);
        std::ignore = std::move(f).Get();
      });
    }
    for (auto& t : ts) {
      t.join();
    }
  }
  if (pool) {
    pool->Stop();
    pool->Wait();
  }
  VX_EXPECT(w.entered.Get() == sections, "granted-exactly-once", "%d sections were entered, %d requests were made", w.entered.Get(),
            sections);
  VX_EXPECT(w.writers.Get() == 0 && w.readers.Get() == 0, "harness:model", "holders not balanced at the end");
}

}  // namespace

std::vector<std::string> Cells(int tier) {
  std::vector<std::string> cells;
  const std::vector<std::string> wforms = {"L", "G", "T", "U"};
  const std::vector<std::string> rforms = {"S", "H", "t", "u"};
  for (const char* opt : {"FR", "Fr", "fR", "fr"}) {
    for (const char* exe : {"inline", "ex"}) {
      // (1 reader, 1 writer), (2 readers, 1 writer), (1 reader, 2 writers): all form combinations, one round
      for (const auto& a : wforms) {
        for (const auto& b : rforms) {
          cells.push_back(std::string{"opt="} + opt + ",exe=" + exe + ",c0=" + a + ",c1=" + b);
          if (tier > 0 || (a == "L" || b == "S")) {
            cells.push_back(std::string{"opt="} + opt + ",exe=" + exe + ",c0=" + a + ",c1=" + b + ",c2=S");
            cells.push_back(std::string{"opt="} + opt + ",exe=" + exe + ",c0=" + a + ",c1=" + b + ",c2=L");
          }
        }
      }
      // two rounds, mixed roles per coroutine
      for (const char* p : {"c0=LS,c1=SL", "c0=LL,c1=SS", "c0=GH,c1=HG", "c0=TS,c1=tL", "c0=LS,c1=LS", "c0=tL,c1=Lt", "c0=Uu,c1=uU", "c0=Tt,c1=tT"}) {
        cells.push_back(std::string{"opt="} + opt + ",exe=" + exe + "," + p);
      }
      // writer vs writer, reader vs reader
      cells.push_back(std::string{"opt="} + opt + ",exe=" + exe + ",c0=L,c1=L");
      cells.push_back(std::string{"opt="} + opt + ",exe=" + exe + ",c0=S,c1=S");
      cells.push_back(std::string{"opt="} + opt + ",exe=" + exe + ",c0=L,c1=L,c2=S");
      if (tier > 0) {
        cells.push_back(std::string{"opt="} + opt + ",exe=" + exe + ",c0=L,c1=S,c2=S,c3=L");
        cells.push_back(std::string{"opt="} + opt + ",exe=" + exe + ",c0=L,c1=S,c2=S,c3=S");
      }
    }
    for (const char* exe : {"pool1", "pool2"}) {
      for (const char* p : {"c0=L,c1=S", "c0=G,c1=H", "c0=L,c1=S,c2=S", "c0=L,c1=L,c2=S"}) {
        if (std::string{exe} == "pool2" && std::string{p}.size() > 10) {
          continue;
        }
        cells.push_back(std::string{"opt="} + opt + ",exe=" + exe + "," + p);
      }
    }
  }
  return cells;
}

bool CellBounds(const vx::Cell& cell, int tier, vx::Bounds& b) {
  const std::string& exe = cell.Str("exe");
  int k = 2;
  if (!cell.Str("c2").empty()) {
    k = 3;
  }
  if (!cell.Str("c3").empty()) {
    k = 4;
  }
  const bool two_rounds = cell.Str("c0").size() > 1;
  if (exe == "pool1" || exe == "pool2") {
    b.P = exe == "pool2" ? 1 : (k == 3 ? 1 : (tier == 0 ? 2 : 3));
  } else if (k == 4) {
    b.P = 2;
  } else if (k == 3) {
    b.P = tier == 0 ? 2 : 3;
  } else {
    // two rounds: a failed Try* that leaves something behind needs a second acquisition to show (4 preemptions in the
    // one seeded case found so far); calibrated: P=5 is ~12 k schedules per cell, all interleavings ~640 k, which
    // did not finish for all option pairs x variants within the thorough budget: P=7 there
    b.P = two_rounds ? (tier == 0 ? 5 : 7) : (tier == 0 ? 3 : 99);
  }
  b.S = 1;
  b.T = 0;
  return true;
}

void Body(const vx::Cell& cell) {
  const std::string& opt = cell.Str("opt");
  if (opt == "FR") {
    Run<yaclib::SharedMutex<true, true>>(cell);
  } else if (opt == "Fr") {
    Run<yaclib::SharedMutex<true, false>>(cell);
  } else if (opt == "fR") {
    Run<yaclib::SharedMutex<false, true>>(cell);
  } else {
    Run<yaclib::SharedMutex<false, false>>(cell);
  }
}

}  // namespace vxh
