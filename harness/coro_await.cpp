// Harness `coro_await` (C13): a coroutine returning Future / Task / SharedFuture performs one await
// (all awaiter kinds) on objects completed by 1-2 producer fibers; executors alive or stopped.
#include "common.hpp"

#include <yaclib/async/contract.hpp>
#include <yaclib/async/make.hpp>
#include <yaclib/async/run.hpp>
#include <yaclib/async/shared_contract.hpp>
#include <yaclib/coro/await.hpp>
#include <yaclib/coro/await_on.hpp>
#include <yaclib/coro/await_sticky.hpp>
#include <yaclib/coro/current_executor.hpp>
#include <yaclib/coro/future.hpp>
#include <yaclib/coro/on.hpp>
#include <yaclib/coro/shared_future.hpp>
#include <yaclib/coro/task.hpp>
#include <yaclib/coro/yield.hpp>
#include <yaclib/lazy/make.hpp>
#include <yaclib/lazy/schedule.hpp>

#include <yaclib_std/thread>

namespace vxh {

const char* const kName = "coro_await";
const char* const kProperty = "C13";

namespace {

using T = vx::Tracked;
using E = yaclib::StopError;
using R = yaclib::Result<T, E>;

// Inline executor usable from several fibers: per-fiber context tracking, counters are observation variables.
class Ex final : public yaclib::IExecutor {
 public:
  explicit Ex(int id, bool stopped = false) : submits{100 + id}, drops{110 + id}, _stopped{stopped} {
  }
  Type Tag() const noexcept final {
    return Type::Custom;
  }
  bool Alive() const noexcept final {
    return !_stopped;
  }
  void Submit(yaclib::Job& job) noexcept final {
    submits.Add(1);
    if (_stopped) {
      drops.Add(1);
      ExecScope scope{nullptr};
      job.Drop();
    } else {
      ExecScope scope{this};
      job.Call();
    }
  }
  vx::Shared submits;
  vx::Shared drops;

 private:
  bool _stopped;
};

struct W {
  const vx::Cell* cell = nullptr;
  Ex e0{0};
  Ex e1{1};
  Ex dead{2, true};
  vx::Shared set_started{120};   // how many producers have started fulfilling
  vx::Shared* started = &set_started;
  vx::Shared resumed{121};       // statements after the await ran this many times
  vx::Shared body_done{122};
  int got_code = 0;              // what the coroutine received from the await
  char got_state = '-';
  const void* exec_after = nullptr;
  bool local_checked = false;
  yaclib::Future<T, E> f0, f1;
  yaclib::SharedFuture<T, E> s0;
  yaclib::Task<T, E> t0;
};

void AfterResume(W& w, int need_started) {
  w.resumed.Add(1);
  VX_EXPECT(w.started->Get() >= need_started, "resumed-after-event",
            "the coroutine resumed although only %d of the %d awaited completions had started", w.started->Get(), need_started);
  w.exec_after = CurrentExecutorTag();
}

// The coroutine under test.  `kind` selects the await expression.
yaclib::Future<T, E> Coro(W& w) {
  const vx::Cell& cell = *w.cell;
  const std::string& kind = cell.Str("await");
  vx::Tracked local{77};  // a live local in the frame: destroyed exactly once whatever happens
  const int n = cell.Int("n", 1);
  if (cell.Is("start", "on")) {
    co_await yaclib::On(w.e0);
    VX_EXPECT(CurrentExecutorTag() == &w.e0, "resumes-on-executor", "after co_await On(e) the coroutine does not run inside e");
  }
  try {
    if (kind == "future") {
      T v = co_await std::move(w.f0);
      AfterResume(w, 1);
      w.got_state = 'V';
      w.got_code = v.Get();
    } else if (kind == "shared") {
      T v = co_await w.s0;
      AfterResume(w, 1);
      w.got_state = 'V';
      w.got_code = v.Get();
    } else if (kind == "await") {
      if (n == 1) {
        co_await yaclib::Await(w.f0);
      } else if (cell.Is("form", "iter")) {
        yaclib::Future<T, E>* begin = &w.f0;  // f0 and f1 are adjacent members
        co_await yaclib::Await(begin, static_cast<std::size_t>(2));
      } else {
        co_await yaclib::Await(w.f0, w.f1);
      }
      AfterResume(w, n);
    } else if (kind == "await-shared") {
      co_await yaclib::Await(w.s0);
      AfterResume(w, 1);
    } else if (kind == "await-mixed") {
      co_await yaclib::Await(w.f0, w.s0);
      AfterResume(w, 2);
    } else if (kind == "await-on" || kind == "await-on-dead") {
      Ex& e = kind == "await-on" ? w.e1 : w.dead;
      if (n == 1) {
        co_await yaclib::AwaitOn(e, w.f0);
      } else {
        co_await yaclib::AwaitOn(e, w.f0, w.f1);
      }
      AfterResume(w, n);
      VX_EXPECT(w.exec_after == &w.e1, "resumes-on-executor", "after AwaitOn(e, ...) the coroutine does not run inside e");
    } else if (kind == "await-sticky") {
      if (n == 1) {
        co_await yaclib::AwaitSticky(w.f0);
      } else {
        co_await yaclib::AwaitSticky(w.f0, w.f1);
      }
      AfterResume(w, n);
      VX_EXPECT(w.exec_after == &w.e0, "resumes-on-executor",
                "after AwaitSticky(...) the coroutine does not run inside its own executor");
    } else if (kind == "on-dead") {
      co_await yaclib::On(w.dead);
      AfterResume(w, 0);
    } else if (kind == "yield") {
      co_await yaclib::kYield;
      AfterResume(w, 0);
      yaclib::IExecutor* cur = &co_await yaclib::CurrentExecutor();
      VX_EXPECT(cur == &w.e0, "current-executor", "CurrentExecutor() is not the executor the coroutine was moved to");
      yaclib::IExecutor* cur2 = &co_await yaclib::Yield();
      VX_EXPECT(cur2 == &w.e0 && CurrentExecutorTag() == &w.e0, "current-executor", "Yield() resumed somewhere else");
    } else if (kind == "task") {
      T v = co_await std::move(w.t0);
      AfterResume(w, 0);
      w.got_state = 'V';
      w.got_code = v.Get();
    } else if (kind == "await-task") {
      co_await yaclib::Await(w.t0);
      AfterResume(w, 0);
      VX_EXPECT(w.t0.Valid() && w.t0.Ready(), "await-leaves-ready", "after Await(task) the task is not valid and ready");
      if (cell.Is("keep", "1")) {
        // the completed task stays valid and is destroyed with its owner: just releases its result
        const auto& r = std::as_const(w.t0).Touch();
        if (r) {
          w.got_state = 'V';
          w.got_code = r.Value().Get();
        }
      } else {
        auto r = std::move(w.t0).Touch();
        if (r) {
          w.got_state = 'V';
          w.got_code = std::move(r).Value().Get();
        }
      }
    }
  } catch (const Boom& b) {
    AfterResume(w, 1);
    w.got_state = 'X';
    w.got_code = b.n;
  } catch (const yaclib::ResultError<E>&) {
    AfterResume(w, 1);
    w.got_state = 'E';
    w.got_code = -1;
  }
  if (kind.rfind("await", 0) == 0 && kind != "await-task") {
    // Await(fs...) leaves the futures valid and ready, holding their results
    const std::string& pat = cell.Str("pat");
    if (w.f0.Valid()) {
      VX_EXPECT(w.f0.Ready(), "await-leaves-ready", "after Await(...) future 0 is not Ready");
      if (w.f0.Ready()) {
        Seen s;
        Observe(s, std::as_const(w.f0).Touch());
        VX_EXPECT((pat[0] == 'V' && s.state == 'V' && s.code == 10) || (pat[0] == 'E' && s.state == 'E') ||
                    (pat[0] == 'X' && s.state == 'X' && s.code == 30),
                  "await-leaves-ready", "after Await(...) future 0 holds (%c,%d) for pattern %s", s.state, s.code, pat.c_str());
      }
    }
    if (w.f1.Valid()) {
      VX_EXPECT(w.f1.Ready(), "await-leaves-ready", "after Await(...) future 1 is not Ready");
    }
    if (w.s0.Valid() && (kind == "await-shared" || kind == "await-mixed")) {
      VX_EXPECT(w.s0.Ready(), "await-leaves-ready", "after Await(...) the shared future is not Ready");
    }
  }
  VX_EXPECT(local.Get() == 77, "frame-local-intact", "a local of the coroutine frame changed");
  w.local_checked = true;
  w.body_done.Add(1);
  if (cell.Is("ret", "throw")) {
    throw Boom{99};
  }
  co_return T{500};
}

template <typename P>
void Produce(W& w, P p, char what, int i) {
  w.set_started.Add(1);
  if (what == 'V') {
    std::move(p).Set(T{10 + i});
  } else if (what == 'E') {
    std::move(p).Set(yaclib::StopTag{});
  } else {
    std::move(p).Set(std::make_exception_ptr(Boom{30 + i}));
  }
}

yaclib::Task<T, E> InnerCoroTask(W& w) {
  vx::Tracked inner_local{78};
  (void)inner_local.Get();
  (void)w;
  co_return T{40};
}

// A continuation returning a coroutine Task must not change the executor the chain inherits (C05)
void RunInnerCoroTask(const vx::Cell& cell) {
  ResetExecCtx();
  W w;
  w.cell = &cell;
  const void* ran_on = nullptr;
  int code = 0;
  {
    auto f = yaclib::Run<E>(w.e0, [&w] {
               return InnerCoroTask(w);
             }).Then([&](T&& v) {
      ran_on = CurrentExecutorTag();
      code = v.Get();
      return std::move(v);
    });
    R r = std::move(f).Get();
    VX_EXPECT(r && std::as_const(r).Value().Get() == 40, "coroutine-result", "the chain did not deliver the inner coroutine Task's value");
  }
  VX_EXPECT(code == 40, "receives-awaited-outcome", "the step after the coroutine Task saw %d, expected 40", code);
  VX_EXPECT(ran_on == &w.e0, "inherited-executor-kept",
            "Then(f) after a step that returned a coroutine Task ran outside the executor inherited along the chain");
  VX_EXPECT(w.e0.submits.Get() == 2, "inherited-executor-kept", "the chain's executor received %d submissions, expected 2",
            w.e0.submits.Get());
}

void RunCell(const vx::Cell& cell) {
  ResetExecCtx();
  const std::string& kind = cell.Str("await");
  if (kind == "inner-coro-task") {
    RunInnerCoroTask(cell);
    return;
  }
  const std::string& pat = cell.Str("pat");
  const int n = cell.Int("n", 1);
  Seen final_seen;
  int expect_body = 1;
  {
    W w;
    w.cell = &cell;
    std::vector<yaclib_std::thread> ts;
    ts.reserve(3);
    const bool uses_f0 = kind == "future" || kind == "await" || kind == "await-on" || kind == "await-on-dead" ||
                         kind == "await-sticky" || kind == "await-mixed";
    const bool uses_s0 = kind == "shared" || kind == "await-shared" || kind == "await-mixed";
    if (uses_f0) {
      auto [f, p] = yaclib::MakeContract<T, E>();
      w.f0 = std::move(f);
      ts.emplace_back([&w, &pat, p = std::move(p)]() mutable {
        Produce(w, std::move(p), pat[0], 0);
      });
      if (n == 2 && kind != "await-mixed") {
        auto [f1, p1] = yaclib::MakeContract<T, E>();
        w.f1 = std::move(f1);
        ts.emplace_back([&w, &pat, p = std::move(p1)]() mutable {
          Produce(w, std::move(p), pat[1], 1);
        });
      }
    }
    if (uses_s0) {
      auto [f, p] = yaclib::MakeSharedContract<T, E>();
      w.s0 = std::move(f);
      const char what = kind == "await-mixed" ? pat[1] : pat[0];
      const int idx = kind == "await-mixed" ? 1 : 0;
      ts.emplace_back([&w, what, idx, p = std::move(p)]() mutable {
        Produce(w, std::move(p), what, idx);
      });
    }
    if (kind == "task" || kind == "await-task") {
      const std::string& head = cell.Str("head");
      if (head == "make") {
        w.t0 = yaclib::MakeTask<T, E>(T{40});
      } else if (head == "make-then") {
        w.t0 = yaclib::MakeTask<T, E>(T{39}).ThenInline([](T&& v) {
          return T{v.Get() + 1};
        });
      } else if (head == "schedule") {
        w.t0 = yaclib::Schedule<E>(w.e1, [] {
          return T{40};
        });
      } else if (head == "lazy-contract") {
        w.t0 = yaclib::LazyContract<T, E>([](yaclib::Promise<T, E> p) {
          std::move(p).Set(T{40});
        });
      } else {
        w.t0 = InnerCoroTask(w);
      }
    }
    // the coroutine starts on the root fiber and runs until its first suspension
    yaclib::Future<T, E> cf = Coro(w);
    // a second coroutine awaiting the same shared future
    yaclib::Future<T, E> cf2;
    W w2;
    if (cell.Is("two", "1")) {
      w2.cell = &cell;
      w2.s0 = w.s0;
      w2.started = &w.set_started;
      cf2 = Coro(w2);
    }
    R res = std::move(cf).Get();
    Observe(final_seen, res);
    if (cf2.Valid()) {
      R res2 = std::move(cf2).Get();
      Seen s2;
      Observe(s2, res2);
      VX_EXPECT(s2.state == final_seen.state && s2.code == final_seen.code, "shared-awaiters-agree",
                "two coroutines awaiting the same SharedFuture finished with (%c,%d) and (%c,%d)", final_seen.state,
                final_seen.code, s2.state, s2.code);
      VX_EXPECT(w2.resumed.Get() == 1, "resumed-exactly-once", "the second coroutine resumed %d times", w2.resumed.Get());
    }
    for (auto& t : ts) {
      t.join();
    }
    // ---- oracles on the coroutine ----
    const bool dead = kind == "await-on-dead" || kind == "on-dead";
    if (dead) {
      expect_body = 0;
      VX_EXPECT(w.resumed.Get() == 0, "stopped-executor-skips-rest", "statements after the await ran although the executor is stopped");
      VX_EXPECT(final_seen.state == 'E', "stopped-executor-stop-error", "coroutine on a stopped executor finished with (%c,%d), expected StopError",
                final_seen.state, final_seen.code);
    } else {
      VX_EXPECT(w.resumed.Get() == 1, "resumed-exactly-once", "the coroutine resumed from its await %d time(s)", w.resumed.Get());
      if (kind == "future" || kind == "shared") {
        const char st = pat[0] == 'V' ? 'V' : pat[0] == 'E' ? 'E' : 'X';
        const int code = pat[0] == 'V' ? 10 : pat[0] == 'E' ? -1 : 30;
        VX_EXPECT(w.got_state == st && w.got_code == code, "receives-awaited-outcome",
                  "co_await produced (%c,%d), the awaited object was completed with (%c,%d)", w.got_state, w.got_code, st, code);
      }
      if (kind == "task" || kind == "await-task") {
        VX_EXPECT(w.got_state == 'V' && w.got_code == 40, "receives-awaited-outcome", "awaiting the task produced (%c,%d), expected (V,40)",
                  w.got_state, w.got_code);
      }
      if (cell.Is("ret", "throw")) {
        VX_EXPECT(final_seen.state == 'X' && final_seen.code == 99, "coroutine-result", "escaping exception became (%c,%d)",
                  final_seen.state, final_seen.code);
      } else {
        VX_EXPECT(final_seen.state == 'V' && final_seen.code == 500, "coroutine-result", "co_return value became (%c,%d)",
                  final_seen.state, final_seen.code);
      }
    }
    VX_EXPECT(w.body_done.Get() == expect_body, "coroutine-result", "the coroutine body completed %d time(s), expected %d",
              w.body_done.Get(), expect_body);
    vx::Outcome("%c%d got=%c%d", final_seen.state, final_seen.code, w.got_state, w.got_code);
  }
}

}  // namespace

std::vector<std::string> Cells(int tier) {
  std::vector<std::string> cells;
  const char states[] = {'V', 'E', 'X'};
  for (const char* start : {"inline", "on"}) {
    for (const char* kind : {"future", "shared"}) {
      for (char s : states) {
        for (const char* ret : {"value", "throw"}) {
          if (tier == 0 && std::string{ret} == "throw" && s != 'V') {
            continue;
          }
          cells.push_back(std::string{"await="} + kind + ",start=" + start + ",n=1,pat=" + s + ",ret=" + ret);
        }
      }
    }
    cells.push_back(std::string{"await=shared,start="} + start + ",n=1,pat=V,ret=value,two=1");
    for (const char* kind : {"await", "await-shared", "await-on", "await-on-dead"}) {
      for (char s : states) {
        cells.push_back(std::string{"await="} + kind + ",start=" + start + ",n=1,pat=" + s + ",ret=value");
      }
    }
    for (const char* kind : {"await", "await-on", "await-mixed", "await-on-dead"}) {
      for (const char* pat : {"VV", "VE", "XV"}) {
        cells.push_back(std::string{"await="} + kind + ",start=" + start + ",n=2,pat=" + pat + ",ret=value,form=var");
      }
    }
    cells.push_back(std::string{"await=await,start="} + start + ",n=2,pat=VV,ret=value,form=iter");
    for (const char* head : {"make", "make-then", "schedule", "lazy-contract", "coro"}) {
      cells.push_back(std::string{"await=task,start="} + start + ",n=0,pat=-,ret=value,head=" + head);
      cells.push_back(std::string{"await=await-task,start="} + start + ",n=0,pat=-,ret=value,head=" + head);
      cells.push_back(std::string{"await=await-task,start="} + start + ",n=0,pat=-,ret=value,keep=1,head=" + head);
    }
  }
  for (char s : states) {
    cells.push_back(std::string{"await=await-sticky,start=on,n=1,pat="} + s + ",ret=value");
  }
  cells.push_back("await=await-sticky,start=on,n=2,pat=VV,ret=value");
  cells.push_back("await=await-sticky,start=on,n=2,pat=EV,ret=value");
  cells.push_back("await=on-dead,start=inline,n=0,pat=-,ret=value");
  cells.push_back("await=on-dead,start=on,n=0,pat=-,ret=value");
  cells.push_back("await=yield,start=on,n=0,pat=-,ret=value");
  cells.push_back("await=inner-coro-task,start=inline,n=0,pat=-,ret=value");
  return cells;
}

bool CellBounds(const vx::Cell& cell, int tier, vx::Bounds& b) {
  const int n = cell.Int("n");
  b.P = 99;  // every interleaving in both tiers
  b.S = 1;  // costs nothing where no weak CAS is executed, and a weak CAS may appear anywhere
  b.T = 0;
  return true;
}

void Body(const vx::Cell& cell) {
  RunCell(cell);
}

}  // namespace vxh
