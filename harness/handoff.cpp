// Harness `handoff` (C01): one producer fiber fulfils (or drops) a Promise while one consumer fiber
// consumes (or drops) the Future; every interleaving at the granularity of atomic/mutex operations.
#include "common.hpp"

#include <yaclib/async/connect.hpp>
#include <yaclib/async/contract.hpp>
#include <yaclib/async/future.hpp>
#include <yaclib/async/promise.hpp>
#include <yaclib/async/wait.hpp>
#include <yaclib/async/wait_for.hpp>

#include <yaclib_std/thread>

namespace vxh {

const char* const kName = "handoff";
const char* const kProperty = "C01";

namespace {

const char* const kProd[] = {"value", "error", "exception", "drop"};
const char* const kCons[] = {"ThenInline", "ThenInlineV", "ThenE",      "ThenQ",     "Detach",     "DetachInline",
                             "DetachE",    "DetachQ",     "GetRvalue",  "GetConst",  "ReadyTouch", "WaitTouch",
                             "WaitFor",    "ConnectGet",  "ConnectThen", "ConnectPre", "drop"};

template <typename V, typename E>
struct Expected {
  char state;
  int code;
};

template <typename V, typename E>
void Produce(const vx::Cell& cell, yaclib::Promise<V, E> p) {
  const std::string& prod = cell.Str("prod");
  if (prod == "value") {
    if constexpr (std::is_void_v<V>) {
      std::move(p).Set();
    } else {
      std::move(p).Set(V{7});
    }
  } else if (prod == "error") {
    if constexpr (std::is_same_v<E, MyError>) {
      std::move(p).Set(MyError{5});
    } else {
      std::move(p).Set(yaclib::StopTag{});
    }
  } else if (prod == "exception") {
    std::move(p).Set(std::make_exception_ptr(Boom{3}));
  } else {
    // drop: the destructor of `p` fulfils with StopError
  }
}

template <typename V, typename E>
void CheckSeen(const Seen& s, const vx::Cell& cell, const char* who, int want_count) {
  VX_EXPECT(s.count == want_count, "delivered-exactly-once", "%s observed the result %d time(s), expected %d", who,
            s.count, want_count);
  if (s.count == 0 || want_count == 0) {
    return;
  }
  const std::string& prod = cell.Str("prod");
  char state = 'V';
  int code = std::is_void_v<V> ? 0 : 7;
  if (prod == "error") {
    state = 'E';
    code = std::is_same_v<E, MyError> ? 5 : -1;
  } else if (prod == "exception") {
    state = 'X';
    code = 3;
  } else if (prod == "drop") {
    state = 'E';
    code = -1;
  }
  VX_EXPECT(s.state == state && s.code == code, "delivered-intact", "%s observed (%c,%d), the producer set (%c,%d)", who,
            s.state, s.code, state, code);
}

template <typename V, typename E>
void RunCell(const vx::Cell& cell) {
  using R = yaclib::Result<V, E>;
  ResetExecCtx();
  const std::string& cons = cell.Str("cons");
  TestExecutor inl{TestExecutor::kInline};
  TestExecutor que{TestExecutor::kQueue};
  Seen seen;         // what the consumer's callback / blocking read observed
  Seen seen_value;   // value-only callback
  int want = 1;      // expected observations
  bool value_cb = false;
  {
    auto [f, p] = yaclib::MakeContract<V, E>();
    yaclib::Future<V, E> f2;
    yaclib::Promise<V, E> p2;
    if (cons == "ConnectGet" || cons == "ConnectThen" || cons == "ConnectPre") {
      auto c2 = yaclib::MakeContract<V, E>();
      f2 = std::move(c2.first);
      p2 = std::move(c2.second);
    }
    if (cons == "ConnectPre") {
      // the observer is attached to the second contract before anything is connected
      std::move(f2).DetachInline([&seen](R&& r) {
        Observe(seen, r);
      });
    }
    yaclib_std::thread producer{[&cell, p = std::move(p)]() mutable {
      Produce<V, E>(cell, std::move(p));
    }};
    yaclib_std::thread consumer{[&, f = std::move(f), f2 = std::move(f2), p2 = std::move(p2)]() mutable {
      if (cons == "ThenInline") {
        auto g = std::move(f).ThenInline([&seen](R&& r) {
          Observe(seen, r);
        });
        std::move(g).Detach();
      } else if (cons == "ThenInlineV") {
        value_cb = true;
        if constexpr (std::is_void_v<V>) {
          auto g = std::move(f).ThenInline([&seen_value]() {
            ++seen_value.count;
            seen_value.state = 'V';
          });
          std::move(g).DetachInline([&seen](yaclib::Result<void, E>&& r) {
            Observe(seen, r);
          });
        } else {
          auto g = std::move(f).ThenInline([&seen_value](V&& v) {
            ++seen_value.count;
            seen_value.state = 'V';
            seen_value.code = v.Get();
            return std::move(v);
          });
          std::move(g).DetachInline([&seen](R&& r) {
            Observe(seen, r);
          });
        }
      } else if (cons == "ThenE") {
        auto g = std::move(f).Then(inl, [&seen](R&& r) {
          Observe(seen, r);
        });
        std::move(g).Detach();
      } else if (cons == "ThenQ") {
        auto g = std::move(f).Then(que, [&seen](R&& r) {
          Observe(seen, r);
        });
        std::move(g).Detach();
      } else if (cons == "Detach") {
        std::move(f).Detach();
        want = 0;
      } else if (cons == "DetachInline") {
        std::move(f).DetachInline([&seen](R&& r) {
          Observe(seen, r);
        });
      } else if (cons == "DetachE") {
        std::move(f).Detach(inl, [&seen](R&& r) {
          Observe(seen, r);
        });
      } else if (cons == "DetachQ") {
        std::move(f).Detach(que, [&seen](R&& r) {
          Observe(seen, r);
        });
      } else if (cons == "GetRvalue") {
        R r = std::move(f).Get();
        Observe(seen, r);
      } else if (cons == "GetConst") {
        const auto& cf = f;
        if (const R* pr = cf.Get(); pr != nullptr) {
          Seen early;
          Observe(early, *pr);
          CheckSeen<V, E>(early, cell, "Get() const& (non-null)", 1);
          vx::Outcome("const-get-hit;");
        } else {
          vx::Outcome("const-get-miss;");
        }
        R r = std::move(f).Get();
        Observe(seen, r);
      } else if (cons == "ReadyTouch") {
        if (f.Ready()) {
          Seen early;
          Observe(early, std::as_const(f).Touch());
          CheckSeen<V, E>(early, cell, "Touch() after Ready()==true", 1);
          vx::Outcome("ready-hit;");
        } else {
          vx::Outcome("ready-miss;");
        }
        R r = std::move(f).Get();
        Observe(seen, r);
      } else if (cons == "WaitTouch") {
        yaclib::Wait(f);
        VX_EXPECT(f.Ready(), "wait-implies-ready", "Wait(f) returned but f.Ready() is false");
        R r = std::move(f).Touch();
        Observe(seen, r);
      } else if (cons == "WaitFor") {
        const std::uint64_t deadline = vx::VirtualNow() + 3600ULL * 1000000000ULL;
        const bool ok = yaclib::WaitFor(std::chrono::hours{1}, f);
        if (ok) {
          VX_EXPECT(f.Ready(), "waitfor-true-implies-ready", "WaitFor returned true but f.Ready() is false");
          vx::Outcome("waitfor-true;");
        } else {
          VX_EXPECT(vx::VirtualNow() >= deadline, "waitfor-false-only-after-deadline",
                    "WaitFor returned false although the deadline has not passed (virtual now %llu < %llu)",
                    static_cast<unsigned long long>(vx::VirtualNow()), static_cast<unsigned long long>(deadline));
          vx::Outcome("waitfor-false;");
        }
        R r = std::move(f).Get();
        Observe(seen, r);
      } else if (cons == "ConnectGet") {
        yaclib::Connect(std::move(f), std::move(p2));
        R r = std::move(f2).Get();
        Observe(seen, r);
      } else if (cons == "ConnectThen") {
        yaclib::Connect(std::move(f), std::move(p2));
        std::move(f2).DetachInline([&seen](R&& r) {
          Observe(seen, r);
        });
      } else if (cons == "ConnectPre") {
        yaclib::Connect(std::move(f), std::move(p2));
      } else if (cons == "drop") {
        want = 0;
        // `f` is destroyed with the closure
      }
    }};
    producer.join();
    consumer.join();
  }
  if (cons == "ThenQ" || cons == "DetachQ") {
    VX_EXPECT(seen.count == 0, "runs-inside-executor", "continuation ran before the queueing executor was drained");
    VX_EXPECT(que.Pending() == 1, "submitted-once", "queueing executor holds %d jobs, expected 1", que.Pending());
    que.Drain();
    VX_EXPECT(seen.exec == &que, "runs-inside-executor", "continuation did not run inside the executor it was given");
  }
  if (cons == "ThenE" || cons == "DetachE") {
    VX_EXPECT(seen.exec == &inl, "runs-inside-executor", "continuation did not run inside the executor it was given");
    VX_EXPECT(inl.submits == 1, "submitted-once", "executor received %d submissions, expected 1", inl.submits);
  }
  CheckSeen<V, E>(seen, cell, "consumer", want);
  if (value_cb) {
    const bool success = cell.Is("prod", "value");
    VX_EXPECT(seen_value.count == (success ? 1 : 0), "delivered-exactly-once",
              "value callback ran %d time(s) for producer kind %s", seen_value.count, cell.Str("prod").c_str());
    if (success && !std::is_void_v<V>) {
      VX_EXPECT(seen_value.code == 7, "delivered-intact", "value callback saw payload %d, expected 7", seen_value.code);
    }
  }
  vx::Outcome("%c%d x%d", seen.state, seen.code, seen.count);
}

}  // namespace

std::vector<std::string> Cells(int tier) {
  std::vector<std::string> cells;
  for (const char* val : {"tracked", "void", "tracked-myerr", "moveonly"}) {
    for (const char* prod : kProd) {
      for (const char* cons : kCons) {
        if (tier == 0 && std::string{val} == "tracked-myerr" &&
            !(std::string{cons} == "ThenInline" || std::string{cons} == "GetRvalue" || std::string{cons} == "ConnectGet")) {
          continue;
        }
        cells.push_back(std::string{"val="} + val + ",prod=" + prod + ",cons=" + cons);
      }
    }
  }
  return cells;
}

bool CellBounds(const vx::Cell& cell, int /*tier*/, vx::Bounds& b) {
  // the whole harness is small enough for "all interleavings"
  b.P = 99;
  b.S = 1;
  b.T = cell.Is("cons", "WaitFor") ? 1 : 0;
  return true;
}

void Body(const vx::Cell& cell) {
  const std::string& val = cell.Str("val");
  if (val == "tracked") {
    RunCell<vx::Tracked, yaclib::StopError>(cell);
  } else if (val == "void") {
    RunCell<void, yaclib::StopError>(cell);
  } else if (val == "moveonly") {
    RunCell<vx::TrackedMO, yaclib::StopError>(cell);
  } else {
    RunCell<vx::Tracked, MyError>(cell);
  }
}

}  // namespace vxh
