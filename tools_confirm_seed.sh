#!/bin/bash
# usage: tools_confirm_seed.sh <worktree> <seed-id> <property>
# Confirms a seeded change in its scratch worktree: patch == working-tree diff, suite passes with it,
# demo fails with it and passes without it.  Writes /verif/seeded/<seed-id>/meta.json.
set -u
wt=$1; id=$2; prop=$3; out=/verif/seeded/$id
mkdir -p $out; cp $wt/demo/patch.diff $wt/demo/demo.cpp $wt/demo/README.md $out/ 2>/dev/null
cd $wt || exit 2
git stash -q 2>/dev/null; git stash pop -q 2>/dev/null
git diff -- include src > /tmp/seed_cur.diff
if ! diff -q <(grep -v '^index' /tmp/seed_cur.diff) <(grep -v '^index' $out/patch.diff) >/dev/null; then
  # make the tree equal to clean + patch
  git checkout -- include src && git apply $out/patch.diff || { echo "cannot apply patch"; exit 2; }
fi
std=17; extra=""
grep -q "coroutine\|co_await\|co_return" $out/demo.cpp && std=20 && extra="-fcoroutines"
grep -q "gtest" $out/demo.cpp && extra="$extra -lgtest -lgtest_main"
bdir=$wt/_build
# demos of coroutine / fiber properties link against the library-only builds the agents made
if grep -q "_build_fc" $out/README.md && [ -d $wt/_build_fc ]; then bdir=$wt/_build_fc; std=20; extra="-fcoroutines $extra"; fi
if grep -q "_build_co" $out/README.md && [ -d $wt/_build_co ] && ! grep -q "_build_fc/src" $out/README.md; then bdir=$wt/_build_co; std=20; extra="-fcoroutines $extra"; fi
if [ -n "${SEED_BDIR:-}" ]; then bdir=$wt/$SEED_BDIR; std=20; extra="-fcoroutines $extra"; fi
build_and_demo() {
  cmake --build $wt/_build > /tmp/seed_build0.log 2>&1
  cmake --build $bdir > /tmp/seed_build.log 2>&1 || { echo "BUILD FAILED"; tail -5 /tmp/seed_build.log; return 99; }
  g++ -std=c++$std -O2 -I$wt/include -I$bdir/include $out/demo.cpp $bdir/src/libyaclib.a -pthread $extra -o /tmp/seed_demo_bin > /tmp/seed_demo_cc.log 2>&1 || { echo "DEMO COMPILE FAILED"; tail -5 /tmp/seed_demo_cc.log; return 98; }
  timeout 300 /tmp/seed_demo_bin > /tmp/seed_demo_run.log 2>&1; return $?
}
build_and_demo; rc_with=$?
ctest --test-dir $wt/_build -j8 --timeout 900 > /tmp/seed_ctest.log 2>&1; rc_ctest=$?
ctest_line=$(grep "tests passed" /tmp/seed_ctest.log)
git apply -R $out/patch.diff
build_and_demo; rc_without=$?
git apply $out/patch.diff
echo "seed=$id ctest_rc=$rc_ctest ($ctest_line) demo_with_patch_rc=$rc_with demo_without_patch_rc=$rc_without"
python3 - <<PY
import json
json.dump(dict(seed='$id', property='$prop', base_commit='$(git rev-parse HEAD)',
  confirmed=dict(ctest_with_patch_rc=$rc_ctest, ctest_summary='''$ctest_line''', demo_with_patch_rc=$rc_with, demo_without_patch_rc=$rc_without,
                 commands=['cmake --build <wt>/_build', 'ctest --test-dir <wt>/_build -j8 --timeout 900',
                           'g++ -std=c++$std -O2 -I<wt>/include -I<wt>/_build/include demo.cpp <wt>/_build/src/libyaclib.a -pthread $extra && ./a.out  (with patch, then after git apply -R and rebuild)'])),
  open('$out/meta.json','w'), indent=1)
PY
